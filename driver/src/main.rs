//! verif-driver: thin bridge between the /verif solver machinery and the real simfony
//! library built from /repo's working tree. Only public API is used.
//!
//! Modes (JSONL on stdin -> JSONL on stdout, one answer per request line):
//!   dump   {text,args?,debug?}            -> emitted Simplicity DAG with finalised types, witness types,
//!                                           parameters, debug symbols
//!   run    {text,args?,debug?,witness}    -> real pipeline: satisfy -> encode -> decode -> BitMachine
//!   parse  {text}                         -> does the front end accept the text? (stage + message)
//!   layout {type,value}                   -> real StructuralType / StructuralValue of a typed value
//!   jets   (no stdin)                     -> every Elements jet with its Simfony signature
//!   run    {op:"mapvalue",text,args?,cmr,bits,expect?} -> real TrackedCall::map_value on a marker's input value
//!   value  {type,text}                    -> Value::parse_from_str verdict + structural bits

use std::collections::HashMap;
use std::io::{BufRead, Write};
use std::panic::{catch_unwind, AssertUnwindSafe};

use serde_json::{json, Map, Value as J};

use simfony::parse::ParseFromStr;
use simfony::simplicity;
use simfony::simplicity::dag::{DagLike, InternalSharing};
use simfony::simplicity::jet::{Elements, Jet};
use simfony::simplicity::node::Inner;
use simfony::simplicity::types::Final;
use simfony::simplicity::{BitIter, BitMachine, Cmr, RedeemNode};
use simfony::str::WitnessName;
use simfony::types::{ResolvedType, StructuralType};
use simfony::value::StructuralValue;
use simfony::{Arguments, CompiledProgram, Value, WitnessValues};

struct TypeTable {
    ids: HashMap<[u8; 32], usize>,
    out: Vec<J>,
}

impl TypeTable {
    fn new() -> Self {
        Self {
            ids: HashMap::new(),
            out: Vec::new(),
        }
    }

    fn id(&mut self, ty: &Final) -> usize {
        let key: [u8; 32] = ty.tmr().to_byte_array();
        if let Some(i) = self.ids.get(&key) {
            return *i;
        }
        let entry = if ty.is_unit() {
            json!({"k": "unit", "w": 0})
        } else if let Some((l, r)) = ty.as_sum() {
            let (l, r) = (self.id(l), self.id(r));
            json!({"k": "sum", "l": l, "r": r, "w": ty.bit_width()})
        } else if let Some((l, r)) = ty.as_product() {
            let (l, r) = (self.id(l), self.id(r));
            json!({"k": "prod", "l": l, "r": r, "w": ty.bit_width()})
        } else {
            unreachable!("final type is unit, sum or product")
        };
        let i = self.out.len();
        self.out.push(entry);
        self.ids.insert(key, i);
        i
    }
}

fn hex(bytes: &[u8]) -> String {
    bytes.iter().map(|b| format!("{:02x}", b)).collect()
}

fn parse_args(req: &J) -> Result<Arguments, String> {
    let mut map = HashMap::new();
    if let Some(obj) = req.get("args").and_then(J::as_object) {
        for (name, v) in obj {
            let ty_s = v.get("type").and_then(J::as_str).ok_or("arg type missing")?;
            let val_s = v.get("value").and_then(J::as_str).ok_or("arg value missing")?;
            let ty = ResolvedType::parse_from_str(ty_s).map_err(|e| e.to_string())?;
            let val = Value::parse_from_str(val_s, &ty).map_err(|e| e.to_string())?;
            map.insert(WitnessName::from_str_unchecked(name), val);
        }
    }
    Ok(Arguments::from(map))
}

fn bits_of(s: &str) -> Vec<u8> {
    // '0'/'1' characters -> packed bytes, MSB first
    let mut out = vec![0u8; (s.len() + 7) / 8];
    for (i, c) in s.bytes().enumerate() {
        if c == b'1' {
            out[i / 8] |= 1 << (7 - (i % 8));
        }
    }
    out
}

fn value_from_padded_bits(bits: &str, ty: &ResolvedType) -> Result<Value, String> {
    let sty = StructuralType::from(ty);
    let fin: &Final = sty.as_ref();
    if bits.len() != fin.bit_width() {
        return Err(format!(
            "bit string has {} bits, type {} needs {}",
            bits.len(),
            ty,
            fin.bit_width()
        ));
    }
    let bytes = bits_of(bits);
    let mut it = BitIter::new(bytes.into_iter());
    let v = simplicity::Value::from_padded_bits(&mut it, fin).map_err(|e| format!("{e:?}"))?;
    let sv = StructuralValue::from(v);
    Value::reconstruct(&sv, ty).ok_or_else(|| "reconstruct failed".to_string())
}

fn padded_bits_of(v: &simplicity::Value) -> String {
    v.iter_padded().map(|b| if b { '1' } else { '0' }).collect()
}

fn marker_cmr(id: u32) -> Cmr {
    // Re-derivation of debug.rs's sequential marker CMRs (tag "simfony\x1fdebug\x1f").
    use simplicity::hashes::{sha256, Hash, HashEngine};
    let tag_hash = sha256::Hash::hash(b"simfony\x1fdebug\x1f");
    let mut engine = sha256::Hash::engine();
    engine.input(tag_hash.as_ref());
    engine.input(tag_hash.as_ref());
    engine.input(id.to_be_bytes().as_ref());
    Cmr::from_byte_array(sha256::Hash::from_engine(engine).to_byte_array())
}

fn dump(req: &J) -> J {
    let text = match req.get("text").and_then(J::as_str) {
        Some(t) => t,
        None => return json!({"ok": false, "stage": "request", "error": "no text"}),
    };
    let debug = req.get("debug").and_then(J::as_bool).unwrap_or(false);
    let parsed = match simfony::parse::Program::parse_from_str(text) {
        Ok(p) => p,
        Err(e) => return json!({"ok": false, "stage": "parse", "error": e.to_string()}),
    };
    let ast = match simfony::ast::Program::analyze(&parsed) {
        Ok(p) => p,
        Err(e) => return json!({"ok": false, "stage": "analyze", "error": e.to_string()}),
    };
    let mut params = Map::new();
    for (n, t) in ast.parameters().iter() {
        params.insert(n.to_string(), J::String(t.to_string()));
    }
    let args = match parse_args(req) {
        Ok(a) => a,
        Err(e) => return json!({"ok": false, "stage": "args", "error": e}),
    };
    if let Err(e) = args.is_consistent(ast.parameters()) {
        return json!({"ok": false, "stage": "instantiate", "error": e.to_string(), "params": params});
    }
    let node = match ast.compile(args, debug) {
        Ok(n) => n,
        Err(e) => return json!({"ok": false, "stage": "compile", "error": e.to_string()}),
    };
    let symbols = ast.debug_symbols(text);

    let mut types = TypeTable::new();
    let mut nodes = Vec::new();
    for item in node.as_ref().post_order_iter::<InternalSharing>() {
        let n = item.node;
        let arrow = n.cached_data().arrow();
        let s = match arrow.source.finalize() {
            Ok(t) => types.id(&t),
            Err(e) => return json!({"ok": false, "stage": "finalize", "error": e.to_string()}),
        };
        let t = match arrow.target.finalize() {
            Ok(t) => types.id(&t),
            Err(e) => return json!({"ok": false, "stage": "finalize", "error": e.to_string()}),
        };
        let mut o = Map::new();
        o.insert("s".into(), json!(s));
        o.insert("t".into(), json!(t));
        if let Some(l) = item.left_index {
            o.insert("l".into(), json!(l));
        }
        if let Some(r) = item.right_index {
            o.insert("r".into(), json!(r));
        }
        let kind = match n.inner() {
            Inner::Iden => "iden",
            Inner::Unit => "unit",
            Inner::InjL(_) => "injl",
            Inner::InjR(_) => "injr",
            Inner::Take(_) => "take",
            Inner::Drop(_) => "drop",
            Inner::Comp(..) => "comp",
            Inner::Case(..) => "case",
            Inner::AssertL(_, cmr) => {
                o.insert("cmr".into(), json!(hex(cmr.as_ref())));
                if *cmr == Cmr::fail(simplicity::FailEntropy::ZERO) {
                    o.insert("failcmr".into(), json!(true));
                }
                if let Some(call) = symbols.get(cmr) {
                    o.insert("marker".into(), json!({"text": call.text(), "kind": format!("{:?}", call.name())}));
                }
                "assertl"
            }
            Inner::AssertR(cmr, _) => {
                o.insert("cmr".into(), json!(hex(cmr.as_ref())));
                if *cmr == Cmr::fail(simplicity::FailEntropy::ZERO) {
                    o.insert("failcmr".into(), json!(true));
                }
                if let Some(call) = symbols.get(cmr) {
                    o.insert("marker".into(), json!({"text": call.text(), "kind": format!("{:?}", call.name())}));
                }
                "assertr"
            }
            Inner::Pair(..) => "pair",
            Inner::Disconnect(..) => "disconnect",
            Inner::Witness(name) => {
                o.insert("wit".into(), json!(name.to_string()));
                "witness"
            }
            Inner::Fail(_) => "fail",
            Inner::Jet(j) => {
                o.insert("jet".into(), json!(j.to_string()));
                "jet"
            }
            Inner::Word(w) => {
                let bits: String = w.iter().map(|b| if b { '1' } else { '0' }).collect();
                o.insert("word".into(), json!(bits));
                "word"
            }
        };
        o.insert("k".into(), json!(kind));
        nodes.push(J::Object(o));
    }

    {
        // `CompiledProgram::commit` only `expect`s the type 1 -> 1; say so instead of handing out a program with an input
        let arrow = node.as_ref().cached_data().arrow();
        let (sw, tw) = (
            arrow.source.finalize().map(|t| t.bit_width()).unwrap_or(usize::MAX),
            arrow.target.finalize().map(|t| t.bit_width()).unwrap_or(usize::MAX),
        );
        if sw != 0 || tw != 0 {
            return json!({"ok": false, "stage": "compile", "error": format!("the emitted program is not of type 1 -> 1 (input {} bits, output {} bits)", sw, tw)});
        }
    }
    let mut wit = Map::new();
    for (n, t) in ast.witness_types().iter() {
        let sty = StructuralType::from(t);
        let fin: &Final = sty.as_ref();
        // the Arc<Final> is needed for the table: rebuild through to_final()
        let tid = types.id(fin);
        wit.insert(
            n.to_string(),
            json!({"type": t.to_string(), "tid": tid, "w": fin.bit_width()}),
        );
    }

    // all tracked calls, by sequential id (ids are dense from 0)
    let mut tracked = Vec::new();
    let mut id = 0u32;
    let mut misses = 0;
    // ids can have holes when two calls share a span (HashMap::insert replaced); tolerate 64 misses
    while misses < 64 {
        let cmr = marker_cmr(id);
        match symbols.get(&cmr) {
            Some(call) => {
                misses = 0;
                tracked.push(json!({"id": id, "cmr": hex(cmr.as_ref()), "text": call.text(), "kind": format!("{:?}", call.name())}));
            }
            None => misses += 1,
        }
        id += 1;
    }

    json!({
        "ok": true,
        "root": nodes.len() - 1,
        "nodes": nodes,
        "types": types.out,
        "witness": wit,
        "params": params,
        "tracked": tracked,
    })
}

fn witness_values(req: &J, compiled_text: &str) -> Result<WitnessValues, String> {
    // witness types are needed to turn bit strings into typed values
    let parsed = simfony::parse::Program::parse_from_str(compiled_text).map_err(|e| e.to_string())?;
    let ast = simfony::ast::Program::analyze(&parsed).map_err(|e| e.to_string())?;
    let mut map = HashMap::new();
    if let Some(obj) = req.get("witness").and_then(J::as_object) {
        for (name, v) in obj {
            let wname = WitnessName::from_str_unchecked(name);
            let val = if let Some(bits) = v.get("bits").and_then(J::as_str) {
                let ty = match v.get("type").and_then(J::as_str) {
                    Some(t) => ResolvedType::parse_from_str(t).map_err(|e| e.to_string())?,
                    None => ast
                        .witness_types()
                        .get(&wname)
                        .ok_or_else(|| format!("witness {name} not declared"))?
                        .clone(),
                };
                value_from_padded_bits(bits, &ty)?
            } else {
                let ty_s = v.get("type").and_then(J::as_str).ok_or("witness type missing")?;
                let val_s = v.get("value").and_then(J::as_str).ok_or("witness value missing")?;
                let ty = ResolvedType::parse_from_str(ty_s).map_err(|e| e.to_string())?;
                Value::parse_from_str(val_s, &ty).map_err(|e| e.to_string())?
            };
            map.insert(wname, val);
        }
    }
    Ok(WitnessValues::from(map))
}

fn run(req: &J) -> J {
    let text = match req.get("text").and_then(J::as_str) {
        Some(t) => t,
        None => return json!({"ok": false, "stage": "request", "error": "no text"}),
    };
    let debug = req.get("debug").and_then(J::as_bool).unwrap_or(false);
    let args = match parse_args(req) {
        Ok(a) => a,
        Err(e) => return json!({"ok": false, "stage": "args", "error": e}),
    };
    let compiled = match CompiledProgram::new(text, args, debug) {
        Ok(c) => c,
        Err(e) => return json!({"ok": false, "stage": "compile", "error": e}),
    };
    let wv = match witness_values(req, text) {
        Ok(w) => w,
        Err(e) => return json!({"ok": false, "stage": "witness", "error": e}),
    };
    let mut shown = Map::new();
    for (n, v) in wv.iter() {
        shown.insert(n.to_string(), json!(v.to_string()));
    }
    let commit_cmr = compiled.commit().cmr();
    let sat = match compiled.satisfy(wv) {
        Ok(s) => s,
        Err(e) => return json!({"ok": false, "stage": "satisfy", "error": e, "values": shown}),
    };
    let redeem_cmr = sat.redeem().cmr();
    let (pb, wb) = sat.redeem().encode_to_vec();
    let decoded = match RedeemNode::<Elements>::decode(
        BitIter::from(pb.into_iter()),
        BitIter::from(wb.into_iter()),
    ) {
        Ok(d) => d,
        Err(e) => {
            return json!({"ok": false, "stage": "decode", "error": e.to_string(), "values": shown})
        }
    };
    let decoded_cmr = decoded.cmr();
    let env = simfony::dummy_env::dummy();
    let mut mac = match BitMachine::for_program(&decoded) {
        Ok(m) => m,
        Err(e) => return json!({"ok": false, "stage": "limits", "error": e.to_string()}),
    };
    let res = mac.exec(&decoded, &env);
    json!({
        "ok": true,
        "success": res.is_ok(),
        "exec_error": res.err().map(|e| e.to_string()),
        "cmr_commit": hex(commit_cmr.as_ref()),
        "cmr_redeem": hex(redeem_cmr.as_ref()),
        "cmr_decoded": hex(decoded_cmr.as_ref()),
        "values": shown,
    })
}

/// The real `TrackedCall::map_value` on the Simplicity value a debug marker receives: the marker is looked up by its
/// CMR in the debug build, the value is rebuilt from its padded bits at the type the marker node has in the emitted
/// program, and the reconstructed source-level value is compared with the expected one (given as text).
fn mapvalue(req: &J) -> J {
    use simfony::debug::{FallibleCallName, TrackedCallName};
    use simfony::either::Either;
    let text = match req.get("text").and_then(J::as_str) {
        Some(t) => t,
        None => return json!({"ok": false, "stage": "request", "error": "no text"}),
    };
    let want_cmr = req.get("cmr").and_then(J::as_str).unwrap_or("");
    let bits = req.get("bits").and_then(J::as_str).unwrap_or("");
    let parsed = match simfony::parse::Program::parse_from_str(text) {
        Ok(p) => p,
        Err(e) => return json!({"ok": false, "stage": "parse", "error": e.to_string()}),
    };
    let ast = match simfony::ast::Program::analyze(&parsed) {
        Ok(p) => p,
        Err(e) => return json!({"ok": false, "stage": "analyze", "error": e.to_string()}),
    };
    let args = match parse_args(req) {
        Ok(a) => a,
        Err(e) => return json!({"ok": false, "stage": "args", "error": e}),
    };
    let node = match ast.compile(args, true) {
        Ok(n) => n,
        Err(e) => return json!({"ok": false, "stage": "compile", "error": e.to_string()}),
    };
    let symbols = ast.debug_symbols(text);
    for item in node.as_ref().post_order_iter::<InternalSharing>() {
        let n = item.node;
        let cmr = match n.inner() {
            Inner::AssertL(_, cmr) => cmr,
            _ => continue,
        };
        if hex(cmr.as_ref()) != want_cmr {
            continue;
        }
        let call = match symbols.get(cmr) {
            Some(c) => c,
            None => return json!({"ok": false, "stage": "symbols", "error": "CMR is not a debug symbol"}),
        };
        let src = match n.cached_data().arrow().source.finalize() {
            Ok(t) => t,
            Err(e) => return json!({"ok": false, "stage": "finalize", "error": e.to_string()}),
        };
        let arg_ty = match src.as_product() {
            Some((_, r)) => r.clone(),
            None => return json!({"ok": false, "stage": "shape", "error": "marker source is not a product"}),
        };
        if bits.len() != arg_ty.bit_width() {
            return json!({"ok": false, "stage": "bits", "error": format!("{} bits given, marker argument has {}", bits.len(), arg_ty.bit_width())});
        }
        let bytes = bits_of(bits);
        let mut it = BitIter::new(bytes.into_iter());
        let v = match simplicity::Value::from_padded_bits(&mut it, &arg_ty) {
            Ok(v) => v,
            Err(e) => return json!({"ok": false, "stage": "bits", "error": format!("{e:?}")}),
        };
        let sv = StructuralValue::from(v);
        let declared = match call.name() {
            TrackedCallName::Debug(t) | TrackedCallName::UnwrapLeft(t) | TrackedCallName::UnwrapRight(t) => Some(t.clone()),
            _ => None,
        };
        let mapped = call.map_value(&sv);
        let (kind, value) = match &mapped {
            None => ("none", None),
            Some(Either::Right(d)) => ("debug", Some(d.value().clone())),
            Some(Either::Left(f)) => match f.name() {
                FallibleCallName::UnwrapLeft(v) => ("unwrap_left", Some(v.clone())),
                FallibleCallName::UnwrapRight(v) => ("unwrap_right", Some(v.clone())),
                FallibleCallName::Assert => ("assert", None),
                FallibleCallName::Panic => ("panic", None),
                FallibleCallName::Jet => ("jet", None),
                FallibleCallName::Unwrap => ("unwrap", None),
            },
        };
        let mut expect_eq = J::Null;
        let mut expect_err = J::Null;
        if let (Some(exp), Some(t)) = (req.get("expect").and_then(J::as_str), declared.as_ref()) {
            match Value::parse_from_str(exp, t) {
                Ok(e) => expect_eq = json!(value.as_ref() == Some(&e)),
                Err(e) => {
                    expect_eq = json!(false);
                    expect_err = json!(e.to_string());
                }
            }
        }
        return json!({
            "ok": true,
            "kind": kind,
            "call_text": call.text(),
            "declared_type": declared.map(|t| t.to_string()),
            "value": value.as_ref().map(|v| v.to_string()),
            "value_type": value.as_ref().map(|v| v.ty().to_string()),
            "expect_eq": expect_eq,
            "expect_error": expect_err,
        });
    }
    json!({"ok": false, "stage": "lookup", "error": "no assertl node with this CMR in the debug build"})
}

fn parse_probe(req: &J) -> J {
    let text = match req.get("text").and_then(J::as_str) {
        Some(t) => t,
        None => return json!({"ok": false, "stage": "request", "error": "no text"}),
    };
    let parsed = match simfony::parse::Program::parse_from_str(text) {
        Ok(p) => p,
        Err(e) => return json!({"ok": false, "stage": "parse", "error": e.to_string()}),
    };
    if req.get("parse_only").and_then(J::as_bool).unwrap_or(false) {
        return json!({"ok": true, "stage": "parse"});
    }
    match simfony::ast::Program::analyze(&parsed) {
        Ok(_) => json!({"ok": true, "stage": "analyze"}),
        Err(e) => json!({"ok": false, "stage": "analyze", "error": e.to_string()}),
    }
}

fn final_to_json(ty: &Final) -> J {
    if ty.is_unit() {
        json!("1")
    } else if let Some((l, r)) = ty.as_sum() {
        json!(["+", final_to_json(l), final_to_json(r)])
    } else if let Some((l, r)) = ty.as_product() {
        json!(["*", final_to_json(l), final_to_json(r)])
    } else {
        unreachable!()
    }
}

fn layout(req: &J) -> J {
    let ty_s = match req.get("type").and_then(J::as_str) {
        Some(t) => t,
        None => return json!({"ok": false, "error": "no type"}),
    };
    let ty = match ResolvedType::parse_from_str(ty_s) {
        Ok(t) => t,
        Err(e) => return json!({"ok": false, "stage": "type", "error": e.to_string()}),
    };
    let sty = StructuralType::from(&ty);
    let fin: &Final = sty.as_ref();
    let mut out = Map::new();
    out.insert("ok".into(), json!(true));
    out.insert("width".into(), json!(fin.bit_width()));
    if req.get("structure").and_then(J::as_bool).unwrap_or(false) {
        out.insert("structure".into(), final_to_json(fin));
    }
    if let Some(val_s) = req.get("value").and_then(J::as_str) {
        match Value::parse_from_str(val_s, &ty) {
            Ok(v) => {
                let sv = StructuralValue::from(&v);
                let simv: &simplicity::Value = sv.as_ref();
                out.insert("bits".into(), json!(padded_bits_of(simv)));
                out.insert("printed".into(), json!(v.to_string()));
                let back = Value::reconstruct(&sv, &ty);
                out.insert("reconstruct_eq".into(), json!(back.as_ref() == Some(&v)));
            }
            Err(e) => {
                out.insert("ok".into(), json!(false));
                out.insert("stage".into(), json!("value"));
                out.insert("error".into(), json!(e.to_string()));
            }
        }
    }
    if let Some(bits) = req.get("bits").and_then(J::as_str) {
        match value_from_padded_bits(bits, &ty) {
            Ok(v) => {
                out.insert("printed".into(), json!(v.to_string()));
            }
            Err(e) => {
                out.insert("ok".into(), json!(false));
                out.insert("stage".into(), json!("bits"));
                out.insert("error".into(), json!(e));
            }
        }
    }
    J::Object(out)
}

fn jets() {
    let stdout = std::io::stdout();
    let mut w = stdout.lock();
    for jet in Elements::ALL {
        let src: Vec<String> = simfony::jet::source_type(jet)
            .iter()
            .map(|t| t.to_string())
            .collect();
        let tgt = simfony::jet::target_type(jet).to_string();
        let rsrc: Vec<String> = simfony::jet::source_type(jet)
            .iter()
            .map(|t| t.resolve_builtin().map(|r| r.to_string()).unwrap_or_default())
            .collect();
        let rtgt = simfony::jet::target_type(jet)
            .resolve_builtin()
            .map(|r| r.to_string())
            .unwrap_or_default();
        let st = jet.source_ty().to_final();
        let tt = jet.target_ty().to_final();
        let o = json!({
            "jet": jet.to_string(),
            "params": src,
            "result": tgt,
            "rparams": rsrc,
            "rresult": rtgt,
            "source_width": st.bit_width(),
            "target_width": tt.bit_width(),
        });
        writeln!(w, "{}", o).unwrap();
    }
}

fn main() {
    let mode = std::env::args().nth(1).unwrap_or_default();
    if mode == "jets" {
        jets();
        return;
    }
    // Panics of the library must be visible as data, not kill the batch.
    std::panic::set_hook(Box::new(|_| {}));
    let stdin = std::io::stdin();
    let stdout = std::io::stdout();
    let mut w = std::io::BufWriter::new(stdout.lock());
    for line in stdin.lock().lines() {
        let line = line.expect("stdin");
        if line.trim().is_empty() {
            continue;
        }
        let req: J = match serde_json::from_str(&line) {
            Ok(r) => r,
            Err(e) => {
                writeln!(w, "{}", json!({"ok": false, "stage": "request", "error": e.to_string()})).unwrap();
                continue;
            }
        };
        let res = catch_unwind(AssertUnwindSafe(|| match mode.as_str() {
            "dump" => dump(&req),
            "run" if req.get("op").and_then(J::as_str) == Some("mapvalue") => mapvalue(&req),
            "run" => run(&req),
            "parse" => parse_probe(&req),
            "layout" => layout(&req),
            _ => json!({"ok": false, "stage": "request", "error": "unknown mode"}),
        }));
        let mut res = match res {
            Ok(r) => r,
            Err(p) => {
                let msg = p
                    .downcast_ref::<String>()
                    .cloned()
                    .or_else(|| p.downcast_ref::<&str>().map(|s| s.to_string()))
                    .unwrap_or_else(|| "panic".into());
                json!({"ok": false, "stage": "panic", "error": msg})
            }
        };
        if let (Some(id), Some(obj)) = (req.get("id"), res.as_object_mut()) {
            obj.insert("id".into(), id.clone());
        }
        writeln!(w, "{}", res).unwrap();
        w.flush().unwrap();
    }
}
