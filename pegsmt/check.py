"""C17 lexical clause: every identifier [A-Za-z][A-Za-z0-9_]* (length <= L) that is not exactly a reserved word
is accepted in every naming role.  One solver query per role over the PEG encoding of the real grammar file;
each model is replayed through the real parser (driver `parse`), its class (role x reserved prefix x next
character class) is blocked, and the search continues until the query is unsatisfiable."""
import json, os, subprocess, sys, time
import z3

from . import peg

# Words whose exact spelling the language reserves (book + pinned grammar).  Deliberately a fixed list:
# an edit of the grammar that reserves a new word shows up as a rejected non-reserved identifier.
RESERVED = sorted(set(
    ["fn", "let", "match", "type", "mod", "const"] +
    ["Either", "Option", "bool", "List", "u1", "u2", "u4", "u8", "u16", "u32", "u64", "u128", "u256"] +
    ["unwrap_left", "unwrap_right", "for_while", "is_none", "unwrap", "assert", "panic", "into", "fold", "dbg"] +
    ["Ctx8", "Pubkey", "Message64", "Message", "Signature", "Scalar", "Fe", "Gej", "Ge", "Point", "Height", "Time", "Distance", "Duration",
     "Lock", "Outpoint", "Confidential1", "ExplicitAsset", "Asset1", "ExplicitAmount", "Amount1", "ExplicitNonce", "Nonce", "TokenAmount1"] +
    ["None", "Some", "Left", "Right", "true", "false", "witness", "param", "jet", "list"]))

# role -> (grammar rule, prefix, delimiter after the identifier, characters the rule must consume after it,
#          template of a whole program for the replay through the real parser)
ROLES = {
    "variable use (expression)": ("expression", "", ";", 0, "fn main() {{ let a: u8 = {w}; }}"),
    "variable use (call argument)": ("expression", "f(", ");", 1, "fn main() {{ let a: u8 = f({w}); }}"),
    "function call": ("expression", "", "(1);", 3, "fn main() {{ let a: u8 = {w}(1); }}"),
    "variable definition (pattern)": ("pattern", "", ":", 0, "fn main() {{ let {w}: u8 = 1; }}"),
    "tuple pattern element": ("pattern", "(a,", ")", 1, "fn main() {{ let (a, {w}): (u8, u8) = (1, 2); }}"),
    "function definition": ("function_name", "", "(", 0, "fn {w}() {{ }} fn main() {{ }}"),
    "function parameter": ("typed_identifier", "", ":u8", 3, "fn f({w}: u8) {{ }} fn main() {{ }}"),
    "alias definition": ("alias_name", "", "=", 0, "type {w} = u8; fn main() {{ }}"),
    "alias use (type position)": ("ty", "", "=", 0, "type {w} = u8; fn main() {{ let a: {w} = 1; }}"),
    "alias use (inside a type)": ("ty", "Option<", ">", 1, "type {w} = u8; fn main() {{ let a: Option<{w}> = None; }}"),
    "match arm variable": ("match_pattern", "Some(", ":u8)", 4, "fn main() {{ let a: u8 = match Some(1) {{ None => 0, Some({w}: u8) => {w}, }}; }}"),
    "witness name": ("witness_expr", "witness::", ";", 0, "fn main() {{ let a: u8 = witness::{w}; }}"),
    "parameter name": ("param_expr", "param::", ";", 0, "fn main() {{ let a: u8 = param::{w}; }}"),
    "statement start": ("statement", "", ";", 0, "fn main() {{ let {w}: () = (); {w}; }}"),
}


def word_of(model, m):
    n = model[m.n].as_long()
    return "".join(chr(model.eval(m.c[i], model_completion=True).as_long()) for i in range(n))


def classify(w):
    """(reserved word that is the longest proper prefix of w or None, class of the next character)"""
    best = None
    for r in RESERVED:
        if w.startswith(r) and len(r) < len(w) and (best is None or len(r) > len(best)):
            best = r
    if best is None:
        return None, None
    ch = w[len(best)]
    cls = "underscore" if ch == "_" else "digit" if ch.isdigit() else "letter"
    return best, cls


def parse_real(driver_bin, texts):
    inp = "".join(json.dumps({"text": t, "parse_only": True}) + "\n" for t in texts)
    r = subprocess.run([driver_bin, "parse"], input=inp, capture_output=True, text=True)
    return [json.loads(l) for l in r.stdout.splitlines() if l.strip()]


def run(driver_bin, L=12, roles=None, max_classes=60, timeout_ms=120000):
    text = open("/repo/src/minimal.pest").read()
    rules = peg.parse_grammar(text)
    report = []
    for role, (rule, prefix, delim, extra, template) in ROLES.items():
        if roles and role not in roles:
            continue
        t0 = time.time()
        m = peg.Matcher(rules, L, delim, prefix=prefix)
        res = m.match(rules[rule][1], 0)
        P = len(prefix)
        accepted = z3.Or(*[(z3.And(g, m.n + P + extra == e) if g is not True else (m.n + P + extra == e)) for g, e in res]) if res else z3.BoolVal(False)
        s = z3.Solver()
        s.set("timeout", timeout_ms)
        s.add(*m.constraints)
        for r in RESERVED:
            if len(r) <= L:
                s.add(z3.Not(z3.And(m.n == len(r), *[m.c[i] == ord(ch) for i, ch in enumerate(r)])))
        s.add(z3.Not(accepted))
        build_s = time.time() - t0
        found = []
        status = "unsat"
        queries = 0
        while True:
            queries += 1
            r = s.check()
            if r == z3.unsat:
                break
            if r != z3.sat:
                status = "unknown"
                break
            w = word_of(s.model(), m)
            prog = template.format(w=w)
            real = parse_real(driver_bin, [prog])[0]
            pref, cls = classify(w)
            found.append({"identifier": w, "reserved_prefix": pref, "next_char": cls, "program": prog,
                          "real_parser_accepts": bool(real.get("ok")), "real_error": (real.get("error") or "")[:200]})
            status = "sat"
            if len(found) >= max_classes:
                status = "too many classes"
                break
            # block the class of this identifier and look for a different one
            if pref is None:
                s.add(z3.Not(z3.And(m.n == len(w), *[m.c[i] == ord(ch) for i, ch in enumerate(w)])))
            else:
                k = len(pref)
                nxt = m.c[k]
                cond = {"underscore": nxt == 95, "digit": z3.And(nxt >= 48, nxt <= 57),
                        "letter": z3.Or(z3.And(nxt >= 65, nxt <= 90), z3.And(nxt >= 97, nxt <= 122))}[cls]
                s.add(z3.Not(z3.And(m.n > k, cond, *[m.c[i] == ord(ch) for i, ch in enumerate(pref)])))
        report.append({"role": role, "rule": rule, "context": prefix + "<identifier>" + delim, "status": status, "queries": queries,
                       "alternatives_encoded": len(res), "depth_cap_hit": m.depth_hit, "build_s": round(build_s, 2),
                       "total_s": round(time.time() - t0, 2), "rejected": found})
    return report, len(rules)
