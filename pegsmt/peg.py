"""E3 - the lexical rules of /repo/src/minimal.pest under a solver.

The grammar file is parsed at check time into PEG expressions.  Matching an expression at a concrete
position of a *symbolic* input (an identifier of symbolic length n <= L over [A-Za-z0-9_], followed by a
concrete delimiter) yields a finite list of (guard, end position) pairs with mutually exclusive guards -
exactly PEG's deterministic semantics: ordered choice guards alternative k with "alternatives < k failed",
`!e` / `&e` become (negated) disjunctions of guards, greedy repetition is unrolled to the input bound.
Guards are z3 Boolean terms over the symbolic characters and n.

pest's implicit (WHITESPACE | COMMENT)* between the elements of non-atomic sequences and repetitions is
modelled, as is the inheritance of atomicity (`@`, `$`) by the rules called from an atomic rule.
"""
import re
import z3

# ------------------------------------------------------------------------------------------------
# grammar parsing


class Lit:
    def __init__(self, s):
        self.s = s


class Ref:
    def __init__(self, name):
        self.name = name


class Seq:
    def __init__(self, items):
        self.items = items


class Choice:
    def __init__(self, items):
        self.items = items


class Not:
    def __init__(self, e):
        self.e = e


class And:
    def __init__(self, e):
        self.e = e


class Star:
    def __init__(self, e):
        self.e = e


class Plus:
    def __init__(self, e):
        self.e = e


class Opt:
    def __init__(self, e):
        self.e = e


TOKEN = re.compile(r'\s*("(?:[^"\\]|\\.)*"|[A-Za-z_][A-Za-z0-9_]*|[~|!&*+?(){}=@$_])')


def parse_grammar(text):
    # (the pinned grammar file has no comments; `//` only occurs inside the string literal of COMMENT)
    toks = TOKEN.findall(text)
    if "".join("".join(t.split()) for t in toks) != "".join(text.split()):
        raise ValueError("minimal.pest uses syntax this PEG reader does not know")
    pos = [0]

    def peek():
        return toks[pos[0]] if pos[0] < len(toks) else None

    def take():
        t = toks[pos[0]]
        pos[0] += 1
        return t

    def term():
        t = take()
        if t == "!":
            return Not(term())
        if t == "&":
            return And(term())
        if t == "(":
            e = expr()
            assert take() == ")"
        elif t.startswith('"'):
            e = Lit(bytes(t[1:-1], "utf8").decode("unicode_escape"))
        else:
            e = Ref(t)
        while peek() in ("*", "+", "?"):
            s = take()
            e = Star(e) if s == "*" else Plus(e) if s == "+" else Opt(e)
        return e

    def seq():
        items = [term()]
        while peek() == "~":
            take()
            items.append(term())
        return items[0] if len(items) == 1 else Seq(items)

    def expr():
        items = [seq()]
        while peek() == "|":
            take()
            items.append(seq())
        return items[0] if len(items) == 1 else Choice(items)

    rules = {}
    while pos[0] < len(toks):
        name = take()
        assert take() == "=", name
        mod = ""
        if peek() in ("@", "$", "_", "!"):
            mod = take()
        assert take() == "{", name
        e = expr()
        assert take() == "}", name
        rules[name] = (mod, e)
    return rules


# ------------------------------------------------------------------------------------------------
# symbolic matching

EOF_CODE = 256


class Matcher:
    def __init__(self, rules, L, delim, prefix=""):
        """input = prefix ++ w ++ delim ++ EOF, |w| = n symbolic in 1..L, w over [A-Za-z0-9_] starting with a letter"""
        self.rules = rules
        self.L = L
        self.delim = delim
        self.prefix = prefix
        self.n = z3.Int("n")
        self.c = [z3.Int("c%d" % i) for i in range(L)]
        self.total = len(prefix) + L + len(delim) + 1
        self.skip = Star(Choice([Ref("WHITESPACE"), Ref("COMMENT")])) if "WHITESPACE" in rules else None
        self.memo = {}
        self.depth_hit = False
        self._char = {}
        self.constraints = [self.n >= 1, self.n <= L]
        for i, ch in enumerate(self.c):
            alpha = z3.Or(z3.And(ch >= 65, ch <= 90), z3.And(ch >= 97, ch <= 122))
            alnum_ = z3.Or(alpha, z3.And(ch >= 48, ch <= 57), ch == 95)
            self.constraints.append(alpha if i == 0 else alnum_)

    def char_at(self, i):
        """z3 Int: code of the input character at concrete position i (256 = end of input)"""
        r = self._char.get(i)
        if r is not None:
            return r
        P = len(self.prefix)
        if i < P:
            e = z3.IntVal(ord(self.prefix[i]))
        else:
            j = i - P
            e = z3.IntVal(EOF_CODE)
            for k in range(self.L, 0, -1):
                if j < k:
                    v = self.c[j]
                elif j - k < len(self.delim):
                    v = z3.IntVal(ord(self.delim[j - k]))
                else:
                    v = z3.IntVal(EOF_CODE)
                e = z3.If(self.n == k, v, e)
            e = z3.simplify(e)
        self._char[i] = e
        return e

    # Boolean helpers that fold Python constants
    @staticmethod
    def and_(*xs):
        ys = []
        for x in xs:
            if x is False:
                return False
            if x is True:
                continue
            ys.append(x)
        if not ys:
            return True
        return ys[0] if len(ys) == 1 else z3.And(*ys)

    @staticmethod
    def or_(*xs):
        ys = []
        for x in xs:
            if x is True:
                return True
            if x is False:
                continue
            ys.append(x)
        if not ys:
            return False
        return ys[0] if len(ys) == 1 else z3.Or(*ys)

    @staticmethod
    def not_(x):
        if x is True:
            return False
        if x is False:
            return True
        return z3.Not(x)

    def builtin(self, name, pos):
        if pos >= self.total:
            ch = None
        else:
            ch = self.char_at(pos)
        if name == "EOI":
            return [(True if ch is None else ch == EOF_CODE, pos)]
        if name == "SOI":
            return [(pos == 0, pos)]
        if ch is None:
            return []
        if name == "ANY":
            return [(ch != EOF_CODE, pos + 1)]
        lo_up = {"ASCII_DIGIT": [(48, 57)], "ASCII_BIN_DIGIT": [(48, 49)], "ASCII_HEX_DIGIT": [(48, 57), (65, 70), (97, 102)],
                 "ASCII_ALPHA": [(65, 90), (97, 122)], "ASCII_ALPHANUMERIC": [(48, 57), (65, 90), (97, 122)],
                 "ASCII_ALPHA_LOWER": [(97, 122)], "ASCII_ALPHA_UPPER": [(65, 90)]}.get(name)
        if lo_up is None:
            raise KeyError("unknown rule or built-in %s" % name)
        return [(z3.Or(*[z3.And(ch >= a, ch <= b) for a, b in lo_up]), pos + 1)]

    def match(self, e, pos, depth=0, atomic=False):
        key = (id(e), pos, atomic)
        r = self.memo.get(key)
        if r is None:
            r = self._match(e, pos, depth, atomic)
            # merge equal end positions
            by_end = {}
            for g, end in r:
                if g is False:
                    continue
                by_end[end] = self.or_(by_end.get(end, False), g)
            r = [(g, end) for end, g in sorted(by_end.items())]
            self.memo[key] = r
        return r

    def do_skip(self, states, depth, atomic):
        """implicit (WHITESPACE | COMMENT)* between the elements of a non-atomic sequence / repetition"""
        if atomic or self.skip is None:
            return states
        out = []
        for g, p in states:
            for g2, p2 in self.match(self.skip, p, depth + 1, True):
                out.append((self.and_(g, g2), p2))
        return self.merge(out)

    def merge(self, states):
        by_end = {}
        for g, end in states:
            if g is False:
                continue
            by_end[end] = self.or_(by_end.get(end, False), g)
        return [(g, end) for end, g in sorted(by_end.items())]

    def _match(self, e, pos, depth, atomic):
        if depth > 200:
            self.depth_hit = True
            return []
        if isinstance(e, Lit):
            if pos + len(e.s) > self.total:
                return []
            g = self.and_(*[self.char_at(pos + i) == ord(ch) for i, ch in enumerate(e.s)])
            return [(g, pos + len(e.s))]
        if isinstance(e, Ref):
            if e.name in self.rules:
                mod, body = self.rules[e.name]
                inner_atomic = True if mod in ("@", "$") else (False if mod == "!" else atomic)
                return self.match(body, pos, depth + 1, inner_atomic)
            return self.builtin(e.name, pos)
        if isinstance(e, Seq):
            states = [(True, pos)]
            for k, item in enumerate(e.items):
                if k > 0:
                    states = self.do_skip(states, depth, atomic)
                nxt = []
                for g, p in states:
                    for g2, p2 in self.match(item, p, depth + 1, atomic):
                        nxt.append((self.and_(g, g2), p2))
                states = self.merge(nxt)
                if not states:
                    break
            return states
        if isinstance(e, Choice):
            out = []
            failed_so_far = True
            for item in e.items:
                res = self.match(item, pos, depth + 1, atomic)
                for g, p in res:
                    out.append((self.and_(failed_so_far, g), p))
                failed_so_far = self.and_(failed_so_far, self.not_(self.or_(*[g for g, _ in res])))
                if failed_so_far is False:
                    break
            return out
        if isinstance(e, Not):
            res = self.match(e.e, pos, depth + 1, atomic)
            return [(self.not_(self.or_(*[g for g, _ in res])), pos)]
        if isinstance(e, And):
            res = self.match(e.e, pos, depth + 1, atomic)
            return [(self.or_(*[g for g, _ in res]), pos)]
        if isinstance(e, Opt):
            res = self.match(e.e, pos, depth + 1, atomic)
            none = self.not_(self.or_(*[g for g, _ in res]))
            return list(res) + [(none, pos)]
        if isinstance(e, (Star, Plus)):
            out = []
            states = [(True, pos)]
            first = isinstance(e, Plus)
            # pest: e* in a non-atomic rule is (e ~ (skip ~ e)*)?; a repetition that fails after the skip
            # backtracks to before the skip
            for it in range(self.total + 1):
                nxt = []
                for g, p in states:
                    starts = [(True, p)] if it == 0 else self.do_skip([(True, p)], depth, atomic)
                    res = []
                    for gs, ps in starts:
                        for g2, p2 in self.match(e.e, ps, depth + 1, atomic):
                            if p2 > p:
                                res.append((self.and_(gs, g2), p2))
                    stop = self.and_(g, self.not_(self.or_(*[g2 for g2, _ in res])))
                    if not first:
                        out.append((stop, p))
                    for g2, p2 in res:
                        nxt.append((self.and_(g, g2), p2))
                first = False
                states = self.merge(nxt)
                if not states:
                    break
            return out
        raise TypeError(e)
