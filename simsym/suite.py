"""Shared runner for the E1 (translation validation) properties: runs a family of cases,
interprets the results under the exit-code discipline, writes evidence.

exit 0: every obligation discharged (or only listed known findings)
exit 1: a counterexample that reproduced on the real pipeline and is not a listed finding
exit 2: inconclusive / machinery broken (solver unknown, canary missed, non-reproducing model)
"""
import json, os, sys, time, collections

from . import engine as E
from . import terms as T

VERIF = E.VERIF
EVIDENCE_DIR = os.path.join(VERIF, "evidence")
REPLAY_DIR = os.path.join(VERIF, "replays")
KNOWN = os.path.join(VERIF, "known_findings.txt")


def load_known(prop):
    """lines: `finding: property=<id> key=<key> <text>`; `fixed:` lines suppress nothing"""
    out = {}
    if os.path.exists(KNOWN):
        for line in open(KNOWN):
            line = line.strip()
            if not line.startswith("finding:"):
                continue
            parts = line.split()
            kv = dict(p.split("=", 1) for p in parts[1:3] if "=" in p)
            if kv.get("property") == prop and "key" in kv:
                out[kv["key"]] = " ".join(parts[3:])
    return out


def tier_seed():
    tier = os.environ.get("VERIF_TIER", "quick")
    seed = int(os.environ.get("VERIF_SEED", "0") or 0)
    return tier, seed


def write_evidence(prop, tier, seed, level, coverage, assumptions, wall, violations):
    os.makedirs(EVIDENCE_DIR, exist_ok=True)
    ev = {"property_id": prop, "tier": tier, "seed": seed, "level": level, "coverage": coverage,
          "assumptions": assumptions, "wall_s": round(wall, 2), "violations": violations}
    path = os.path.join(EVIDENCE_DIR, prop + ".json")
    with open(path + ".tmp", "w") as f:
        json.dump(ev, f, indent=1, sort_keys=True)
    os.replace(path + ".tmp", path)
    return path


def save_replay(prop, cid, record):
    d = os.path.join(REPLAY_DIR, prop)
    os.makedirs(d, exist_ok=True)
    safe = "".join(ch if ch.isalnum() or ch in "-_." else "_" for ch in cid)[:120]
    path = os.path.join(d, safe + ".json")
    record = dict(record, property=prop)
    with open(path, "w") as f:
        json.dump(record, f, indent=1, sort_keys=True)
    return path


def replay_file(path):
    """re-run a stored counterexample on the real pipeline; exit 1 if it still violates"""
    rec = json.load(open(path))
    E.build_driver()
    if rec.get("kind") in ("rejected", "lexical") or rec.get("spec_verdict") in ("accepted", "reject"):
        real = E.driver_batch("dump", [{"text": rec["text"], "debug": False, "args": rec.get("args", {})}])[0]
        print("program:\n" + rec["text"])
        accepted = bool(real.get("ok"))
        print("the book's rules say:", rec.get("spec_verdict"), "| the compiler:", "accepts" if accepted else "rejects at %s: %s" % (real.get("stage"), (real.get("error") or "")[:300]))
        want_accept = rec.get("spec_verdict") == "accepted"
        if accepted != want_accept:
            print("VIOLATION property=%s replay=%s" % (rec.get("property", "?"), path))
            return 1
        print("does not reproduce on the current tree")
        return 0
    if rec.get("kind") == "kani":
        from . import kani_runner as K
        ok, r2 = K.replay(rec["harness"])
        print(json.dumps(r2, indent=1)[-3000:])
        if ok:
            print("VIOLATION property=%s replay=%s" % (rec.get("property", "?"), path))
            return 1
        print("does not reproduce on the current tree")
        return 0
    if rec.get("kind") in ("marker_value", "marker_reconstruct"):
        print("program:\n" + rec["text"])
        print("witness:", json.dumps(rec.get("witness")))
        req = rec["request"]
        print("marker %s receives the bits %r (concrete evaluation of the emitted debug build)" % (req["cmr"][:16], req["bits"]))
        if rec["kind"] == "marker_reconstruct":
            real = E.driver_batch("run", [req])[0]
            print("source-level value:", req["expect"], "| real TrackedCall::map_value:", json.dumps(real))
            still = (not real.get("ok")) or real.get("expect_eq") is not True
        else:
            real = E.driver_batch("run", [req])[0]
            print("real TrackedCall::map_value:", json.dumps(real))
            print("source-level values of the call's argument:", json.dumps(rec["source_values"]))
            still = True
            for ex in rec["source_values"]:
                rr = E.driver_batch("run", [dict(req, expect=ex["value"])])[0]
                if rr.get("expect_eq") is True:
                    still = False
        if still:
            print("VIOLATION property=%s replay=%s" % (rec.get("property", "?"), path))
            return 1
        print("does not reproduce on the current tree")
        return 0
    real = E.driver_batch("run", [{"text": rec["text"], "debug": rec["debug"], "args": rec.get("args", {}),
                                   "witness": rec["witness"]}])[0]
    print("program:\n" + rec["text"])
    print("witness:", json.dumps(rec["witness"]))
    print("source semantics say:", rec["spec_verdict"])
    if not real.get("ok"):
        print("real pipeline stopped at", real.get("stage"), real.get("error"))
        real_verdict = "fail"
    else:
        real_verdict = "success" if real["success"] else "fail"
        print("real Bit Machine says:", real_verdict, real.get("exec_error") or "")
    if real_verdict != rec["spec_verdict"]:
        print("VIOLATION property=%s replay=%s" % (rec.get("property", "?"), path))
        return 1
    print("does not reproduce on the current tree")
    return 0


def run_property(prop, cases, classify=None, technique="", functions=None, bounds=None, outside=None,
                 assumptions=None, jobs=None, timeout_s=120, extra_coverage=None, min_validated=0,
                 require_canaries=True, solver_kind="z3", kani=None, level="translation_validation",
                 pre_violations=None, rejection_is_violation=False, case_budget_s=None):
    """cases: list of engine.Case.  classify(result) -> known-finding key or None."""
    tier, seed = tier_seed()
    t0 = time.time()
    flt = os.environ.get("VERIF_FILTER")  # debugging aid: run only the cases whose id contains the string
    if flt:
        cases = [c for c in cases if flt in c.cid]
    if case_budget_s and "VERIF_CASE_BUDGET_S" not in os.environ:
        os.environ["VERIF_CASE_BUDGET_S"] = str(case_budget_s)
    build_s = E.build_driver()
    from . import selftest
    st_n, st_bad = selftest.run(1500, seed)
    if st_bad:
        sys.stderr.write("INCONCLUSIVE: rewriting front end fails its self-test: %s\n" % st_bad[:3])
        return 2
    results, wall = E.run_cases(cases, jobs=jobs, timeout_s=timeout_s, progress=500, solver_kind=solver_kind) if cases else ([], 0.0)
    by_status = collections.Counter(r["status"] for r in results)
    os.makedirs(os.path.join(VERIF, "work"), exist_ok=True)
    with open(os.path.join(VERIF, "work", "%s.results.jsonl" % prop), "w") as f:  # debugging aid, not evidence
        for r in results:
            f.write(json.dumps({k: (sorted(v) if isinstance(v, (set, frozenset)) else v) for k, v in r.items() if k != "replay_record"}, default=str) + "\n")
    known = load_known(prop)
    violations, known_hits, broken, rejected = [], [], [], []
    for r in results:
        st = r["status"]
        if st in ("violation", "accepted_unexpectedly"):
            key = classify(r) if classify else None
            rec = r.get("replay_record") or {"text": r.get("text"), "debug": False, "witness": {},
                                              "spec_verdict": "reject" if st == "accepted_unexpectedly" else "n/a",
                                              "detail": r.get("detail")}
            path = save_replay(prop, r["cid"], rec)
            if key is not None and key in known:
                known_hits.append((key, r, path))
            else:
                violations.append((r, path, key))
        elif st in ("broken", "inconclusive", "canary_missed", "unconfirmed"):
            broken.append(r)
        elif st == "rejected":
            if rejection_is_violation:
                # the property implies that these programs are accepted (they all are on the pinned tree)
                rec = {"text": r.get("text"), "debug": False, "witness": {}, "spec_verdict": "accepted", "kind": "rejected",
                       "detail": r.get("detail"), "tags": r.get("tags")}
                path = save_replay(prop, r["cid"], rec)
                key = classify(r) if classify else None
                if key is not None and key in known:
                    known_hits.append((key, r, path))
                else:
                    violations.append((r, path, key))
            else:
                rejected.append(r)
    n_obl = sum(1 for r in results if not r["mut"])
    n_held = by_status.get("held", 0) + by_status.get("rejected_as_expected", 0)
    canaries = [r for r in results if r["mut"]]
    validated = sum(r["validated"] for r in results)
    distinct_texts = len(set(r.get("text") for r in results if r.get("text")))
    nontrivial = sum(1 for r in results if r["status"] == "held" and r.get("can_fail") and r.get("can_succeed"))
    samples = []
    for r in sorted(results, key=lambda r: r["cid"])[:: max(1, len(results) // 4)][:4]:
        samples.append({"case": r["cid"], "program": r.get("text"), "status": r["status"],
                        "dag_nodes": r["nodes"], "symbolic_evaluations": r["evals"], "terms": r["terms"],
                        "witness_bits_quantified": r["witness_bits"], "queries": r["queries"],
                        "solver_s": round(r["solver_s"], 3), "tags": r["tags"]})
    coverage = {
        "programs": distinct_texts,
        "disagreements_checked": sum(r["queries"] for r in results),
        "samples": samples,
        "evaluations": len(results),
        "distinct_nontrivial": nontrivial,
        "rule": "one case = one program x {debug off,on}; the solver decides `fails_compiled XOR fails_source` over all witness bits; "
                "non-trivial = held AND both a failing and a succeeding witness assignment exist (each found by the solver and "
                "confirmed on the real Bit Machine)",
        "obligations": n_obl,
        "discharged": n_held,
        "status_counts": dict(by_status),
        "canaries": {"run": len(canaries), "caught": sum(1 for r in canaries if r["status"] == "canary_caught")},
        "traces_validated_against_impl": validated,
        "validated_success_runs": sum(r["validated_ok"] for r in results),
        "validated_failing_runs": sum(r["validated_fail"] for r in results),
        "symbolic_evaluations": sum(r["evals"] for r in results),
        "max_dag_nodes": max([r["nodes"] for r in results] or [0]),
        "max_witness_bits_in_one_query": max([r["witness_bits"] for r in results] or [0]),
        "solver_time_s": round(sum(r["solver_s"] for r in results), 2),
        "solver": {"kind": solver_kind, "version": T.Solver(solver_kind, 5).version()},
        "second_solver_cvc5": {"enabled": tier == "thorough", "unsat_confirmed": sum(r.get("cvc5_unsat", 0) for r in results),
                               "unknown_or_timeout": sum(r.get("cvc5_unknown", 0) for r in results)},
        "queries_closed_by_rewriting_alone": sum(r.get("closed_by_rewriting", 0) for r in results),
        "unnormalised_rechecks": {"note": "every 7th small case is re-decided by z3 with ALL rewriting rules switched off (terms.RAW); sat would mean an unsound rule and is fatal",
                                  "unsat": sum(r.get("raw_unsat", 0) for r in results), "unknown": sum(r.get("raw_unknown", 0) for r in results),
                                  "goal_trivial_even_without_rewriting": sum(r.get("raw_trivial", 0) for r in results)},
        "driver_build_s": round(build_s, 1),
        "functions_encoded": functions or [],
        "bounds": bounds or {},
        "outside_the_claim": outside or [],
        "technique": technique,
        "front_end_rejections": [{"case": r["cid"], "detail": r["detail"]} for r in rejected][:20],
        "known_findings_observed": sorted(set(k for k, _, _ in known_hits)),
        "decode_failures_seen": sum(len(r.get("decode_failures", [])) for r in results),
        "exhaustive": False,
    }
    if extra_coverage:
        coverage.update(extra_coverage(results))
    rc = 0
    kani_violations = 0
    if kani:
        from . import kani_runner as K
        names = K.select(prop, tier) if kani is True else list(kani)
        if flt:
            names = [n for n in names if flt in n]
        kres, kbuild = K.run_all(names, jobs=int(os.environ.get("VERIF_JOBS") or min(12, os.cpu_count() or 4))) if names else ([], 0.0)
        ok = [r for r in kres if r["status"] == "success" and r.get("covers_satisfied", 0) >= 1]
        coverage["kani"] = {
            "harnesses": len(kres), "discharged": len(ok), "build_s": round(kbuild, 1),
            "cbmc_time_s": round(sum(r.get("cbmc_s", 0) for r in kres), 1),
            "checks_total": sum(r.get("checks", 0) for r in kres),
            "cover_properties_satisfied": sum(r.get("covers_satisfied", 0) for r in kres),
            "rule": "a harness is discharged when Kani reports SUCCESSFUL with unwinding assertions on and at least one kani::cover! (reachability witness) satisfied",
            "stubs": "ASCII stubs for core::str::Chars::{next,count} and str::trim_start_matches in the harnesses marked stubs=true (kani/src/stubs.rs); each assumes byte < 128",
            "per_harness": [{"harness": r["name"], "status": r["status"], "wall_s": r["wall_s"], "checks": r.get("checks"),
                             "covers": "%s/%s" % (r.get("covers_satisfied"), r.get("covers")), "stubs": K.HARNESSES[r["name"]]["stubs"]} for r in kres],
            "tool": "kani 0.68.0 / CBMC 6.11.0 (cadical)",
        }
        coverage["obligations"] = coverage.get("obligations", 0) + len(kres)
        coverage["discharged"] = coverage.get("discharged", 0) + len(ok)
        coverage["evaluations"] = coverage.get("evaluations", 0) + len(kres)
        coverage["distinct_nontrivial"] = coverage.get("distinct_nontrivial", 0) + len(ok)
        if not cases:
            coverage["samples"] = [{"harness": r["name"], "status": r["status"], "checks": r.get("checks"), "wall_s": r["wall_s"]} for r in kres[:5]]
            coverage["programs"] = 0
        for r in kres:
            if r["status"] == "failed":
                reproduced, rec = K.replay(r["name"])
                rec["failed_checks"] = r.get("failed_checks")
                rec["spec_verdict"] = "harness assertion holds"
                path = save_replay(prop, "kani-" + r["name"], dict(rec, kind="kani"))
                if reproduced:
                    print("VIOLATION property=%s replay=%s" % (prop, path))
                    sys.stderr.write("  kani harness %s: %s\n" % (r["name"], r.get("failed_checks")))
                    kani_violations += 1
                else:
                    sys.stderr.write("INCONCLUSIVE kani harness %s failed but concrete playback did not reproduce natively: %s\n" % (r["name"], r.get("failed_checks")))
                    rc = 2
            elif r not in ok:
                sys.stderr.write("INCONCLUSIVE kani harness %s: %s (covers %s/%s)\n%s\n" % (r["name"], r["status"], r.get("covers_satisfied"), r.get("covers"), r.get("tail", "")[-300:]))
                rc = 2
    for key, r, path in known_hits:
        pass
    for key in sorted(set(k for k, _, _ in known_hits)):
        n = sum(1 for k, _, _ in known_hits if k == key)
        print("KNOWN-FINDING: property=%s %s (%s; %d case(s) in this run)" % (prop, key, known[key], n))
    if broken or rejected:
        rc = 2
        for r in (broken + rejected)[:10]:
            sys.stderr.write("INCONCLUSIVE %s [%s]: %s\n" % (r["cid"], r["status"], (r.get("detail") or "")[:800]))
            if r.get("text") and r["status"] == "rejected":
                sys.stderr.write(r["text"][:600] + "\n")
    if require_canaries and any(r["status"] != "canary_caught" for r in canaries):
        rc = 2
    if validated < min_validated:
        sys.stderr.write("INCONCLUSIVE: only %d concrete cross-validation points (need %d)\n" % (validated, min_validated))
        rc = 2
    for i, rec in enumerate(pre_violations or []):
        path = save_replay(prop, "%s-%d" % (rec.get("kind", "check"), i), rec)
        print("VIOLATION property=%s replay=%s" % (prop, path))
        sys.stderr.write("  %s\n" % json.dumps(rec)[:400])
        kani_violations += 1
    if violations or kani_violations:
        rc = 1
        for r, path, key in violations[:20]:
            print("VIOLATION property=%s replay=%s" % (prop, path))
            sys.stderr.write("  case %s%s: %s\n" % (r["cid"], " key=" + key if key else "", (r.get("detail") or "")[:400]))
    total = time.time() - t0
    write_evidence(prop, tier, seed, level, coverage,
                   assumptions or [], total, len(violations) + kani_violations)
    sys.stderr.write("%s: %d cases, %s, %d cross-validated runs, solver %.1fs, wall %.1fs, exit %d\n" % (
        prop, len(results), dict(by_status), validated, coverage["solver_time_s"], total, rc))
    return rc
