"""Generators of Simfony code that makes a value observable.

`main` returns unit, so the only observable of a run is success / failure.  `assert_eq(a, b, ty)`
produces statements that fail exactly when the two values of type `ty` differ; comparing a computed value
with a fresh witness EXP makes the value observable for the solver (EXP is universally quantified).
The generated code is ordinary Simfony (lets, patterns, casts, matches, eq jets) and is evaluated by the
specification like any other program text.
"""
from .src import *

EQ_WIDTHS = (1, 8, 16, 32, 64, 256)


class Fresh:
    def __init__(self, prefix="o"):
        self.n = 0
        self.prefix = prefix

    def name(self):
        self.n += 1
        return "%s%d" % (self.prefix, self.n)


def assert_eq(a, b, ty, fresh):
    """a, b: expressions of type ty (cheap to duplicate: variables).  Returns a list of statements."""
    k = ty[0]
    if k == "u":
        n = ty[1]
        if n in EQ_WIDTHS:
            return [ExprStmt(Assert(JetCall("eq_%d" % n, [a, b], BOOL)))]
        h = U(n // 2)
        a1, a2, b1, b2 = fresh.name(), fresh.name(), fresh.name(), fresh.name()
        out = [Let(PTuple([PVar(a1), PVar(a2)]), TUP(h, h), Cast(a, TUP(h, h))),
               Let(PTuple([PVar(b1), PVar(b2)]), TUP(h, h), Cast(b, TUP(h, h)))]
        return out + assert_eq(Var(a1, h), Var(b1, h), h, fresh) + assert_eq(Var(a2, h), Var(b2, h), h, fresh)
    if k == "bool":
        return [ExprStmt(Assert(JetCall("eq_1", [Cast(a, U(1)), Cast(b, U(1))], BOOL)))]
    if k == "tuple" or k == "array":
        tys = list(ty[1]) if k == "tuple" else [ty[1]] * ty[2]
        if not tys:
            return []
        na = [fresh.name() for _ in tys]
        nb = [fresh.name() for _ in tys]
        P = PTuple if k == "tuple" else PArray
        out = [Let(P([PVar(n) for n in na]), ty, a), Let(P([PVar(n) for n in nb]), ty, b)]
        for x, y, t in zip(na, nb, tys):
            out += assert_eq(Var(x, t), Var(y, t), t, fresh)
        return out
    if k == "option":
        x, y = fresh.name(), fresh.name()
        inner = ty[1]
        both = Block(assert_eq(Var(x, inner), Var(y, inner), inner, fresh))
        m = Match(a,
                  Arm("none", Match(b, Arm("none", Block([])), Arm("some", Panic(UNIT), y, inner))),
                  Arm("some", Match(b, Arm("none", Panic(UNIT)), Arm("some", both, y, inner)), x, inner))
        return [ExprStmt(m)]
    if k == "either":
        x, y = fresh.name(), fresh.name()
        lt, rt = ty[1], ty[2]
        bl = Block(assert_eq(Var(x, lt), Var(y, lt), lt, fresh))
        br = Block(assert_eq(Var(x, rt), Var(y, rt), rt, fresh))
        m = Match(a,
                  Arm("left", Match(b, Arm("left", bl, y, lt), Arm("right", Panic(UNIT), y, rt)), x, lt),
                  Arm("right", Match(b, Arm("left", Panic(UNIT), y, lt), Arm("right", br, y, rt)), x, rt))
        return [ExprStmt(m)]
    if k == "list":
        et, bound = ty[1], ty[2]
        if bound == 2:
            st = OPT(et)
        else:
            st = TUP(OPT(ARR(et, bound // 2)), LIST(et, bound // 2))
        x, y = fresh.name(), fresh.name()
        out = [Let(x, st, Cast(a, st)), Let(y, st, Cast(b, st))]
        return out + assert_eq(Var(x, st), Var(y, st), st, fresh)
    raise ValueError(ty)


def observe(expr, ty, wit_name, fresh=None):
    """statements: bind expr, compare with witness::<wit_name>, inside a block so nothing leaks"""
    fresh = fresh or Fresh()
    if width(ty) == 0:
        return [ExprStmt(Block([Let(PIgnore(), ty, expr)]))]
    a, b = fresh.name(), fresh.name()
    stmts = [Let(a, ty, expr), Let(b, ty, Wit(wit_name, ty))] + assert_eq(Var(a, ty), Var(b, ty), ty, fresh)
    return [ExprStmt(Block(stmts))]
