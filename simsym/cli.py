import importlib, os, sys

E1 = {"C08": "c08", "C09": "c09", "C10": "c10", "C01": "c01", "C12": "c12", "C13": "c13", "C14": "c14", "C07": "c07"}


def main():
    args = sys.argv[1:]
    if not args:
        print("usage: check <id> [--tier quick|thorough] [--replay path]")
        return 2
    prop = args[0]
    i = 1
    replay = None
    while i < len(args):
        if args[i] == "--tier":
            os.environ["VERIF_TIER"] = args[i + 1]
            i += 2
        elif args[i] == "--replay":
            replay = args[i + 1]
            i += 2
        else:
            i += 1
    if os.environ.get("VERIF_TIER") not in ("quick", "thorough"):
        os.environ["VERIF_TIER"] = "quick"
    if replay:
        from . import suite
        return suite.replay_file(replay)
    try:
        mod = importlib.import_module("simsym.props." + prop.lower())
        return mod.main()
    except SystemExit:
        raise
    except BaseException:
        import traceback
        traceback.print_exc()
        sys.stderr.write("INCONCLUSIVE: the check itself crashed\n")
        return 2


if __name__ == "__main__":
    sys.exit(main())
