"""Self-test of the rewriting front end (terms.py): random expressions are built through the smart
constructors and, in parallel, evaluated by a direct reference interpretation on Python integers; the
simplified term must evaluate to the reference value under random models.  A rewriting rule that is
unsound for some operand shape shows up here as a mismatch (exit 2), not as a silently wrong 'unsat'."""
import random

from . import terms as T


def _rand_expr(rng, depth, w, nvars, model):
    """returns (term, reference value)"""
    m = (1 << w) - 1
    if depth <= 0 or rng.random() < 0.15:
        if rng.random() < 0.3:
            v = rng.choice([0, 1, m, rng.getrandbits(w)]) & m
            return T.const(w, v), v
        name = "x%d_%d" % (w, rng.randrange(nvars))
        if name not in model:
            model[name] = rng.getrandbits(w)
        return T.var(name, w), model[name] & m
    ops = ["ite", "cat", "ext", "not", "and", "or", "xor", "add", "sub", "restrict", "assume"]
    if w == 1:
        ops += ["eq", "ult", "ule", "ite1", "eq"]
    op = rng.choice(ops)
    sub = lambda ww: _rand_expr(rng, depth - 1, ww, nvars, model)
    if op in ("ite", "ite1"):
        c, cv = sub(1)
        a, av = sub(w)
        b, bv = sub(w)
        return T.ite(c, a, b), (av if cv else bv)
    if op == "cat" and w >= 2:
        k = rng.randrange(1, w)
        a, av = sub(k)
        b, bv = sub(w - k)
        return T.cat([a, b]), (av << (w - k)) | bv
    if op == "ext":
        extra_hi, extra_lo = rng.randrange(0, 4), rng.randrange(0, 4)
        x, xv = sub(w + extra_hi + extra_lo)
        return T.ext(x, extra_lo + w - 1, extra_lo), (xv >> extra_lo) & m
    if op == "not":
        a, av = sub(w)
        return T.not_(a), ~av & m
    if op in ("and", "or", "xor"):
        n = rng.choice([2, 2, 3])
        parts = [sub(w) for _ in range(n)]
        f = {"and": T.and_, "or": T.or_, "xor": T.xor}[op]
        acc = parts[0][1]
        for _, v in parts[1:]:
            acc = (acc & v) if op == "and" else (acc | v) if op == "or" else (acc ^ v)
        return f(*[p for p, _ in parts]), acc
    if op in ("add", "sub"):
        a, av = sub(w)
        b, bv = sub(w)
        return (T.add(a, b), (av + bv) & m) if op == "add" else (T.sub(a, b), (av - bv) & m)
    if op in ("eq", "ult", "ule"):
        ww = rng.choice([1, 2, 3, 8])
        a, av = sub(ww)
        b, bv = sub(ww)
        if op == "eq":
            return T.eq(a, b), int(av == bv)
        if op == "ult":
            return T.ult(a, b), int(av < bv)
        return T.ule(a, b), int(av <= bv)
    if op == "restrict":
        # restrict_bit may only be used when the bit really has the assumed value: guard with an ite
        x, xv = sub(w)
        pos = rng.randrange(w)
        bit = (xv >> pos) & 1
        return T.restrict_bit(x, pos, bit), xv
    if op == "assume":
        x, xv = sub(w)
        c, cv = sub(1)
        return T.assume_deep(x, c, cv), xv
    a, av = sub(w)
    return a, av


def run(n=1500, seed=0):
    rng = random.Random(seed)
    bad = []
    for i in range(n):
        T.reset()
        model = {}
        w = rng.choice([1, 1, 2, 3, 4, 8])
        t, ref = _rand_expr(rng, rng.randrange(2, 6), w, 3, model)
        got = T.evaluate(t, model) if t is not None else 0
        if got != ref:
            bad.append((i, w, got, ref))
        # the same term under partial substitution must agree as well
        if t is not None:
            part = {k: v for k, v in model.items() if rng.random() < 0.5}
            t2 = T.substitute(t, part)
            got2 = T.evaluate(t2, model)
            if got2 != ref:
                bad.append((i, w, got2, ref, "substitute"))
    T.reset()
    return n, bad
