"""Bit-vector models of the environment-independent arithmetic / logic jets.

Each model maps the jet's flattened input (one bit-vector, arguments concatenated in
the jet's source-type order; None for unit) to its flattened output.  The models are
shared by the implementation side and the specification side, so the solver verdicts
never depend on them being right; they matter only for replaying counterexamples on the
real Bit Machine.  They are validated against the real C jets on concrete points by the
translator-validation step of every run (validate.py).
"""
from . import terms as T

MODELS = {}
NEVER_FAILS = set()


def _split(x, widths):
    out = []
    pos = x.w
    for w in widths:
        out.append(T.ext(x, pos - 1, pos - w))
        pos -= w
    assert pos == 0, (x.w, widths)
    return out


def _bool(t):
    return t


def _reg(name, f):
    MODELS[name] = f
    NEVER_FAILS.add(name)


def _widths():
    for n in (1, 8, 16, 32, 64):
        yield n


def _build():
    for n in (8, 16, 32, 64):
        def add_(x, n=n):
            a, b = _split(x, [n, n])
            return T.add(T.zext(a, n + 1), T.zext(b, n + 1))

        def full_add(x, n=n):
            c, a, b = _split(x, [1, n, n])
            return T.add(T.add(T.zext(a, n + 1), T.zext(b, n + 1)), T.zext(c, n + 1))

        def sub_(x, n=n):
            a, b = _split(x, [n, n])
            return T.cat([T.ult(a, b), T.sub(a, b)])

        def full_sub(x, n=n):
            c, a, b = _split(x, [1, n, n])
            r = T.sub(T.sub(T.zext(a, n + 1), T.zext(b, n + 1)), T.zext(c, n + 1))
            return r  # top bit of the (n+1)-bit difference is the borrow

        def inc(x, n=n):
            return T.add(T.zext(x, n + 1), T.const(n + 1, 1))

        def full_inc(x, n=n):
            c, a = _split(x, [1, n])
            return T.add(T.zext(a, n + 1), T.zext(c, n + 1))

        def dec(x, n=n):
            return T.sub(T.zext(x, n + 1), T.const(n + 1, 1))

        def full_dec(x, n=n):
            c, a = _split(x, [1, n])
            return T.sub(T.zext(a, n + 1), T.zext(c, n + 1))

        def neg(x, n=n):
            return T.sub(T.const(n + 1, 0), T.zext(x, n + 1))

        def mul_(x, n=n):
            a, b = _split(x, [n, n])
            return T.mul(T.zext(a, 2 * n), T.zext(b, 2 * n))

        def full_mul(x, n=n):
            a, b, c, d = _split(x, [n, n, n, n])
            z = lambda t: T.zext(t, 2 * n)
            return T.add(T.add(T.mul(z(a), z(b)), z(c)), z(d))

        def div_(x, n=n):
            a, b = _split(x, [n, n])
            return T.ite(T.eq(b, T.const(n, 0)), T.const(n, 0), T.udiv(a, b))

        def mod_(x, n=n):
            a, b = _split(x, [n, n])
            return T.ite(T.eq(b, T.const(n, 0)), a, T.urem(a, b))

        def div_mod(x, n=n, div_=div_, mod_=mod_):
            return T.cat([div_(x), mod_(x)])

        def divides(x, n=n):
            a, b = _split(x, [n, n])
            return T.ite(T.eq(a, T.const(n, 0)), T.eq(b, T.const(n, 0)),
                         T.eq(T.urem(b, a), T.const(n, 0)))

        def lt(x, n=n):
            a, b = _split(x, [n, n])
            return T.ult(a, b)

        def le(x, n=n):
            a, b = _split(x, [n, n])
            return T.ule(a, b)

        def mx(x, n=n):
            a, b = _split(x, [n, n])
            return T.ite(T.ult(a, b), b, a)

        def mn(x, n=n):
            a, b = _split(x, [n, n])
            return T.ite(T.ult(a, b), a, b)

        def median(x, n=n):
            a, b, c = _split(x, [n, n, n])
            lo = T.ite(T.ult(a, b), a, b)
            hi = T.ite(T.ult(a, b), b, a)
            # median = max(lo, min(hi, c))
            m = T.ite(T.ult(hi, c), hi, c)
            return T.ite(T.ult(lo, m), m, lo)

        _reg("add_%d" % n, add_)
        _reg("full_add_%d" % n, full_add)
        _reg("subtract_%d" % n, sub_)
        _reg("full_subtract_%d" % n, full_sub)
        _reg("increment_%d" % n, inc)
        _reg("full_increment_%d" % n, full_inc)
        _reg("decrement_%d" % n, dec)
        _reg("full_decrement_%d" % n, full_dec)
        _reg("negate_%d" % n, neg)
        if n <= 16:
            _reg("multiply_%d" % n, mul_)
            _reg("full_multiply_%d" % n, full_mul)
        if n <= 16:
            _reg("divide_%d" % n, div_)
            _reg("modulo_%d" % n, mod_)
            _reg("div_mod_%d" % n, div_mod)
            _reg("divides_%d" % n, divides)
        _reg("lt_%d" % n, lt)
        _reg("le_%d" % n, le)
        _reg("max_%d" % n, mx)
        _reg("min_%d" % n, mn)
        _reg("median_%d" % n, median)
        _reg("is_zero_%d" % n, lambda x, n=n: T.eq(x, T.const(n, 0)))
        _reg("is_one_%d" % n, lambda x, n=n: T.eq(x, T.const(n, 1)))
        _reg("one_%d" % n, lambda x, n=n: T.const(n, 1))

    for n in (1, 8, 16, 32, 64, 256):
        def eq_(x, n=n):
            a, b = _split(x, [n, n])
            return T.eq(a, b)
        _reg("eq_%d" % n, eq_)

    for n in (1, 8, 16, 32, 64):
        def and__(x, n=n):
            a, b = _split(x, [n, n])
            return T.and_(a, b)

        def or__(x, n=n):
            a, b = _split(x, [n, n])
            return T.or_(a, b)

        def xor__(x, n=n):
            a, b = _split(x, [n, n])
            return T.xor(a, b)

        def xor_xor(x, n=n):
            a, b, c = _split(x, [n, n, n])
            return T.xor(a, b, c)

        def ch(x, n=n):
            a, b, c = _split(x, [n, n, n])
            return T.or_(T.and_(a, b), T.and_(T.not_(a), c))

        def maj(x, n=n):
            a, b, c = _split(x, [n, n, n])
            return T.or_(T.and_(a, b), T.and_(a, c), T.and_(b, c))

        _reg("and_%d" % n, and__)
        _reg("or_%d" % n, or__)
        _reg("xor_%d" % n, xor__)
        _reg("xor_xor_%d" % n, xor_xor)
        _reg("ch_%d" % n, ch)
        _reg("maj_%d" % n, maj)
        _reg("complement_%d" % n, lambda x: T.not_(x))
        _reg("some_%d" % n, lambda x, n=n: T.not_(T.eq(x, T.const(n, 0))))
        _reg("all_%d" % n, lambda x, n=n: T.eq(x, T.const(n, (1 << n) - 1)))
        _reg("low_%d" % n, lambda x, n=n: T.const(n, 0))
        _reg("high_%d" % n, lambda x, n=n: T.const(n, (1 << n) - 1))

    pads = [(1, 8), (1, 16), (1, 32), (1, 64), (8, 16), (8, 32), (8, 64), (16, 32), (16, 64), (32, 64)]
    for a, b in pads:
        _reg("left_pad_low_%d_%d" % (a, b), lambda x, a=a, b=b: T.cat([T.zeros(b - a), x]))
        _reg("left_pad_high_%d_%d" % (a, b), lambda x, a=a, b=b: T.cat([T.ones(b - a), x]))
        _reg("right_pad_low_%d_%d" % (a, b), lambda x, a=a, b=b: T.cat([x, T.zeros(b - a)]))
        _reg("right_pad_high_%d_%d" % (a, b), lambda x, a=a, b=b: T.cat([x, T.ones(b - a)]))

        def lext(x, a=a, b=b):
            msb = T.ext(x, a - 1, a - 1)
            return T.cat([T.ite(msb, T.ones(b - a), T.zeros(b - a)), x])

        def rext(x, a=a, b=b):
            lsb = T.ext(x, 0, 0)
            return T.cat([x, T.ite(lsb, T.ones(b - a), T.zeros(b - a))])

        _reg("left_extend_%d_%d" % (a, b), lext)
        if a != 1:
            _reg("right_extend_%d_%d" % (a, b), rext)

    for a in (8, 16, 32, 64):
        b = 1
        while b < a:
            _reg("leftmost_%d_%d" % (a, b), lambda x, a=a, b=b: T.ext(x, a - 1, a - b))
            _reg("rightmost_%d_%d" % (a, b), lambda x, a=a, b=b: T.ext(x, b - 1, 0))
            b *= 2


_build()


def model_for(name, interpret):
    """interpret: True (every modelled jet), False (none), or a collection of jet names to keep
    uninterpreted while all other modelled jets are interpreted"""
    if interpret is True:
        return MODELS.get(name)
    if interpret is False or interpret is None:
        return None
    if name in interpret:
        return None
    return MODELS.get(name)

# jets that return without failing on every input even though we keep them uninterpreted
# (hashes, environment reads that cannot fail); everything else gets an uninterpreted
# `fails` predicate, which is the safe default.
