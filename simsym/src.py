"""Simfony source side: types, AST, pretty printer, the book's value layout, and a
symbolic big-step evaluator of the *source* semantics (the specification).

Nothing here is derived from /repo/src: types and layouts follow book/src/type.md and
book/src/type_casting.md, evaluation follows book/src/{let_statement,match_expression,
function}.md (strict call-by-value, lexical block scoping, inlined non-recursive calls).
"""
from . import terms as T
from . import jets as J

# ----------------------------------------------------------------------------------------
# types


def U(n):
    return ("u", n)


BOOL = ("bool",)


def TUP(*ts):
    return ("tuple", tuple(ts))


UNIT = TUP()


def ARR(t, n):
    return ("array", t, n)


def LIST(t, b):
    return ("list", t, b)


def OPT(t):
    return ("option", t)


def EITHER(a, b):
    return ("either", a, b)


def ty_str(t, aliases=None):
    if aliases and t in aliases:
        return aliases[t]
    k = t[0]
    r = lambda x: ty_str(x, aliases)
    if k == "u":
        return "u%d" % t[1]
    if k == "bool":
        return "bool"
    if k == "tuple":
        if len(t[1]) == 1:
            return "(%s,)" % r(t[1][0])
        return "(" + ", ".join(r(x) for x in t[1]) + ")"
    if k == "array":
        return "[%s; %d]" % (r(t[1]), t[2])
    if k == "list":
        return "List<%s, %d>" % (r(t[1]), t[2])
    if k == "option":
        return "Option<%s>" % r(t[1])
    if k == "either":
        return "Either<%s, %s>" % (r(t[1]), r(t[2]))
    raise ValueError(t)


def parse_ty(s):
    """parser for the type syntax the library prints (no aliases)"""
    pos = [0]

    def ws():
        while pos[0] < len(s) and s[pos[0]] in " \t\n":
            pos[0] += 1

    def eat(tok):
        ws()
        if s.startswith(tok, pos[0]):
            pos[0] += len(tok)
            return True
        return False

    def need(tok):
        if not eat(tok):
            raise ValueError("expected %r at %d in %r" % (tok, pos[0], s))

    def num():
        ws()
        i = pos[0]
        while pos[0] < len(s) and s[pos[0]].isdigit():
            pos[0] += 1
        return int(s[i:pos[0]])

    def ty():
        ws()
        if eat("Either<"):
            a = ty()
            need(",")
            b = ty()
            need(">")
            return EITHER(a, b)
        if eat("Option<"):
            a = ty()
            need(">")
            return OPT(a)
        if eat("List<"):
            a = ty()
            need(",")
            n = num()
            need(">")
            return LIST(a, n)
        if eat("bool"):
            return BOOL
        if eat("u"):
            return U(num())
        if eat("["):
            a = ty()
            need(";")
            n = num()
            need("]")
            return ARR(a, n)
        if eat("("):
            elems = []
            while True:
                if eat(")"):
                    break
                elems.append(ty())
                if eat(","):
                    continue
                need(")")
                break
            return TUP(*elems)
        raise ValueError("cannot parse type at %d in %r" % (pos[0], s))

    r = ty()
    ws()
    if pos[0] != len(s):
        raise ValueError("trailing input in type %r" % s)
    return r


def width(t):
    """bit width of the padded layout documented in the book (type_casting.md)"""
    k = t[0]
    if k == "u":
        return t[1]
    if k == "bool":
        return 1
    if k == "tuple":
        return sum(width(x) for x in t[1])
    if k == "array":
        return width(t[1]) * t[2]
    if k == "option":
        return 1 + width(t[1])
    if k == "either":
        return 1 + max(width(t[1]), width(t[2]))
    if k == "list":
        w = width(t[1])
        s = t[2] // 2
        tot = 0
        while s >= 1:
            tot += 1 + s * w
            s //= 2
        return tot
    raise ValueError(t)


def structure(t):
    """Simplicity structure of a type as documented in book/src/type_casting.md:
    ('1',) unit, ('+', l, r) sum, ('*', l, r) product"""
    k = t[0]
    if k == "bool":
        return ("+", ("1",), ("1",))
    if k == "u":
        if t[1] == 1:
            return ("+", ("1",), ("1",))
        h = structure(U(t[1] // 2))
        return ("*", h, h)
    if k == "option":
        return ("+", ("1",), structure(t[1]))
    if k == "either":
        return ("+", structure(t[1]), structure(t[2]))
    if k == "tuple" or k == "array":
        parts = [structure(x) for x in t[1]] if k == "tuple" else [structure(t[1])] * t[2]

        def balanced(ps):
            n = len(ps)
            if n == 0:
                return ("1",)
            if n == 1:
                return ps[0]
            right = 1
            while right * 2 < n:
                right *= 2
            # the right part holds the largest power of two strictly below n elements
            return ("*", balanced(ps[: n - right]), balanced(ps[n - right:]))

        return balanced(parts)
    if k == "list":
        e, b = t[1], t[2]
        if b == 2:
            return structure(OPT(e))
        return ("*", structure(OPT(ARR(e, b // 2))), structure(LIST(e, b // 2)))
    raise ValueError(t)


def structure_from_json(j):
    if j == "1":
        return ("1",)
    return (j[0], structure_from_json(j[1]), structure_from_json(j[2]))


def list_block_sizes(bound):
    s = bound // 2
    out = []
    while s >= 1:
        out.append(s)
        s //= 2
    return out


# ----------------------------------------------------------------------------------------
# source-level symbolic values


class VOpt:
    __slots__ = ("tag", "val")

    def __init__(self, tag, val):
        self.tag = tag
        self.val = val


class VEi:
    __slots__ = ("tag", "l", "r")

    def __init__(self, tag, l, r):
        self.tag = tag
        self.l = l
        self.r = r


class VList:
    __slots__ = ("blocks",)

    def __init__(self, blocks):
        self.blocks = blocks  # [(present: Term1, elems: tuple)] largest block first


def default(t):
    k = t[0]
    if k == "u":
        return T.const(t[1], 0)
    if k == "bool":
        return T.false()
    if k == "tuple":
        return tuple(default(x) for x in t[1])
    if k == "array":
        return tuple(default(t[1]) for _ in range(t[2]))
    if k == "option":
        return VOpt(T.false(), default(t[1]))
    if k == "either":
        return VEi(T.false(), default(t[1]), default(t[2]))
    if k == "list":
        return VList([(T.false(), tuple(default(t[1]) for _ in range(s))) for s in list_block_sizes(t[2])])
    raise ValueError(t)


def to_bits(t, v):
    """book layout: source value -> canonical padded bit-vector (None if zero width)"""
    k = t[0]
    if k == "u" or k == "bool":
        return v
    if k == "tuple":
        return T.cat([to_bits(x, e) for x, e in zip(t[1], v)])
    if k == "array":
        return T.cat([to_bits(t[1], e) for e in v])
    if k == "option":
        w = width(t[1])
        p = to_bits(t[1], v.val)
        if v.tag.op == "c":
            return T.cat([v.tag, p if v.tag.val else T.zeros(w)])
        return T.cat([v.tag, T.ite(v.tag, p, T.zeros(w)) if w else None])
    if k == "either":
        wl, wr = width(t[1]), width(t[2])
        mw = max(wl, wr)
        pl = T.cat([T.zeros(mw - wl), to_bits(t[1], v.l)])
        pr = T.cat([T.zeros(mw - wr), to_bits(t[2], v.r)])
        if v.tag.op == "c":
            return T.cat([v.tag, pr if v.tag.val else pl])
        return T.cat([v.tag, T.ite(v.tag, pr, pl) if mw else None])
    if k == "list":
        parts = []
        for (present, elems), s in zip(v.blocks, list_block_sizes(t[2])):
            w = width(t[1]) * s
            p = T.cat([to_bits(t[1], e) for e in elems])
            parts.append(present)
            if w:
                parts.append(T.ite(present, p, T.zeros(w)))
        return T.cat(parts)
    raise ValueError(t)


def from_bits(t, x):
    """book layout: padded bit-vector -> source value"""
    k = t[0]
    if k == "u" or k == "bool":
        return x
    if k == "tuple" or k == "array":
        tys = t[1] if k == "tuple" else [t[1]] * t[2]
        out = []
        pos = x.w if x is not None else 0
        for e in tys:
            w = width(e)
            out.append(from_bits(e, T.ext(x, pos - 1, pos - w) if w else None))
            pos -= w
        assert pos == 0
        return tuple(out)
    if k == "option":
        w = width(t[1])
        tag = T.ext(x, x.w - 1, x.w - 1)
        return VOpt(tag, from_bits(t[1], T.ext(x, w - 1, 0) if w else None))
    if k == "either":
        wl, wr = width(t[1]), width(t[2])
        tag = T.ext(x, x.w - 1, x.w - 1)
        return VEi(tag, from_bits(t[1], T.ext(x, wl - 1, 0) if wl else None),
                   from_bits(t[2], T.ext(x, wr - 1, 0) if wr else None))
    if k == "list":
        we = width(t[1])
        pos = x.w
        blocks = []
        for s in list_block_sizes(t[2]):
            present = T.ext(x, pos - 1, pos - 1)
            pos -= 1
            elems = []
            for _ in range(s):
                elems.append(from_bits(t[1], T.ext(x, pos - 1, pos - we) if we else None))
                pos -= we
            blocks.append((present, tuple(elems)))
        assert pos == 0
        return VList(blocks)
    raise ValueError(t)


def merge(c, a, b, t):
    """ite on source values"""
    if c.op == "c":
        return a if c.val else b
    if a is b:
        return a
    k = t[0]
    if k == "u" or k == "bool":
        return T.ite(c, a, b)
    if k == "tuple":
        return tuple(merge(c, x, y, e) for x, y, e in zip(a, b, t[1]))
    if k == "array":
        return tuple(merge(c, x, y, t[1]) for x, y in zip(a, b))
    if k == "option":
        # the payload is only ever read under tag = Some: a side that is known to be None contributes nothing
        ta, tb = T.assume(a.tag, c, 1), T.assume(b.tag, c, 0)
        if ta.op == "c" and not ta.val:
            val = b.val
        elif tb.op == "c" and not tb.val:
            val = a.val
        else:
            val = merge(c, a.val, b.val, t[1])
        return VOpt(T.ite(c, a.tag, b.tag), val)
    if k == "either":
        def pick(xa, xb, a_dead, b_dead, ty):
            if a_dead:
                return xb
            if b_dead:
                return xa
            return merge(c, xa, xb, ty)
        ta, tb = T.assume(a.tag, c, 1), T.assume(b.tag, c, 0)
        a_is_r = ta.op == "c" and ta.val == 1
        a_is_l = ta.op == "c" and ta.val == 0
        b_is_r = tb.op == "c" and tb.val == 1
        b_is_l = tb.op == "c" and tb.val == 0
        return VEi(T.ite(c, a.tag, b.tag), pick(a.l, b.l, a_is_r, b_is_r, t[1]), pick(a.r, b.r, a_is_l, b_is_l, t[2]))
    if k == "list":
        return VList([(T.ite(c, pa, pb), tuple(merge(c, x, y, t[1]) for x, y in zip(ea, eb)))
                      for (pa, ea), (pb, eb) in zip(a.blocks, b.blocks)])
    raise ValueError(t)


def assume_value(v, t, c, val):
    """simplify a source value that is only used when the 1-bit term c has value val (don't-care elsewhere)"""
    if c.op == "c":
        return v
    k = t[0]
    if k == "u" or k == "bool":
        return T.assume_deep(v, c, val)
    if k == "tuple":
        return tuple(assume_value(x, e, c, val) for x, e in zip(v, t[1]))
    if k == "array":
        return tuple(assume_value(x, t[1], c, val) for x in v)
    if k == "option":
        return VOpt(T.assume_deep(v.tag, c, val), assume_value(v.val, t[1], c, val))
    if k == "either":
        return VEi(T.assume_deep(v.tag, c, val), assume_value(v.l, t[1], c, val), assume_value(v.r, t[2], c, val))
    if k == "list":
        return VList([(T.assume_deep(p, c, val), tuple(assume_value(x, t[1], c, val) for x in es)) for p, es in v.blocks])
    raise ValueError(t)


def const_value(t, pv):
    """python value -> source value.  ints for u/bool, tuples/lists for products,
    None / ('some', x) for options, ('left', x)/('right', x) for eithers, python list for lists"""
    k = t[0]
    if k == "u":
        return T.const(t[1], pv)
    if k == "bool":
        return T.true() if pv else T.false()
    if k == "tuple":
        return tuple(const_value(e, x) for e, x in zip(t[1], pv))
    if k == "array":
        return tuple(const_value(t[1], x) for x in pv)
    if k == "option":
        if pv is None:
            return VOpt(T.false(), default(t[1]))
        return VOpt(T.true(), const_value(t[1], pv[1]))
    if k == "either":
        if pv[0] == "left":
            return VEi(T.false(), const_value(t[1], pv[1]), default(t[2]))
        return VEi(T.true(), default(t[1]), const_value(t[2], pv[1]))
    if k == "list":
        return list_value(t, [const_value(t[1], x) for x in pv])
    raise ValueError(t)


def value_text(t, x):
    """book layout, concrete: padded bits (python int of width(t) bits) -> Simfony expression text of the value"""
    k = t[0]
    w = width(t)
    if k == "u":
        return str(x)
    if k == "bool":
        return "true" if x else "false"
    if k == "tuple" or k == "array":
        tys = t[1] if k == "tuple" else [t[1]] * t[2]
        out, pos = [], w
        for e in tys:
            we = width(e)
            out.append(value_text(e, (x >> (pos - we)) & ((1 << we) - 1)))
            pos -= we
        if k == "array":
            return "[" + ", ".join(out) + "]"
        return "(" + ", ".join(out) + (",)" if len(out) == 1 else ")")
    if k == "option":
        we = width(t[1])
        if (x >> (w - 1)) & 1:
            return "Some(" + value_text(t[1], x & ((1 << we) - 1)) + ")"
        return "None"
    if k == "either":
        if (x >> (w - 1)) & 1:
            we = width(t[2])
            return "Right(" + value_text(t[2], x & ((1 << we) - 1)) + ")"
        we = width(t[1])
        return "Left(" + value_text(t[1], x & ((1 << we) - 1)) + ")"
    if k == "list":
        we = width(t[1])
        pos = w
        out = []
        for s in list_block_sizes(t[2]):
            present = (x >> (pos - 1)) & 1
            pos -= 1
            for _ in range(s):
                if present:
                    out.append(value_text(t[1], (x >> (pos - we)) & ((1 << we) - 1)))
                pos -= we
        return "list![" + ", ".join(out) + "]"
    raise ValueError(t)


def list_value(t, elems):
    """a list of known length: elements fill the present blocks in order, largest block first"""
    n = len(elems)
    assert n < t[2]
    blocks = []
    i = 0
    for s in list_block_sizes(t[2]):
        if n & s:
            blocks.append((T.true(), tuple(elems[i:i + s])))
            i += s
        else:
            blocks.append((T.false(), tuple(default(t[1]) for _ in range(s))))
    assert i == n
    return VList(blocks)


# ----------------------------------------------------------------------------------------
# AST


class Node:
    pass


class Lit(Node):
    def __init__(self, ty, v, fmt="dec", text=None):
        """text: the literal exactly as it is to be written (underscores, leading zeros); v is its value"""
        self.ty, self.v, self.fmt, self.text = ty, v, fmt, text


class HexBytes(Node):
    """hex literal at a byte-array type [u8; n]"""

    def __init__(self, data, text=None):
        self.data = bytes(data)
        self.ty = ARR(U(8), len(self.data))
        self.text = text


class BoolLit(Node):
    def __init__(self, v):
        self.ty, self.v = BOOL, bool(v)


class Wit(Node):
    def __init__(self, name, ty):
        self.name, self.ty = name, ty


class Param(Node):
    def __init__(self, name, ty):
        self.name, self.ty = name, ty


class Var(Node):
    def __init__(self, name, ty):
        self.name, self.ty = name, ty


class Paren(Node):
    def __init__(self, e):
        self.e, self.ty = e, e.ty


class TupleE(Node):
    def __init__(self, elems):
        self.elems = list(elems)
        self.ty = TUP(*[e.ty for e in self.elems])


class ArrayE(Node):
    def __init__(self, elems, elem_ty):
        self.elems = list(elems)
        self.ty = ARR(elem_ty, len(self.elems))


class ListE(Node):
    def __init__(self, elems, elem_ty, bound):
        self.elems = list(elems)
        self.ty = LIST(elem_ty, bound)


class NoneE(Node):
    def __init__(self, inner_ty):
        self.ty = OPT(inner_ty)


class SomeE(Node):
    def __init__(self, e):
        self.e, self.ty = e, OPT(e.ty)


class LeftE(Node):
    def __init__(self, e, right_ty):
        self.e, self.ty = e, EITHER(e.ty, right_ty)


class RightE(Node):
    def __init__(self, e, left_ty):
        self.e, self.ty = e, EITHER(left_ty, e.ty)


class PVar:
    def __init__(self, name):
        self.name = name


class PIgnore:
    pass


class PTuple:
    def __init__(self, elems):
        self.elems = list(elems)


class PArray:
    def __init__(self, elems):
        self.elems = list(elems)


class Let(Node):
    def __init__(self, pat, ty, e):
        self.pat, self.ty, self.e = pat, ty, e
        if isinstance(pat, str):
            self.pat = PVar(pat)


class ExprStmt(Node):
    def __init__(self, e):
        self.e = e


class Block(Node):
    def __init__(self, stmts, expr=None):
        self.stmts, self.expr = list(stmts), expr
        self.ty = expr.ty if expr is not None else UNIT


class Arm:
    def __init__(self, kind, expr, var=None, var_ty=None):
        """kind: false|true|none|some|left|right"""
        self.kind, self.expr, self.var, self.var_ty = kind, expr, var, var_ty


class Match(Node):
    def __init__(self, scrut, arm1, arm2):
        self.scrut, self.arms = scrut, (arm1, arm2)
        self.ty = arm1.expr.ty


class FnDef:
    def __init__(self, name, params, ret, body):
        """params: [(name, ty)], body: Block"""
        self.name, self.params, self.ret, self.body = name, list(params), ret, body


class Call(Node):
    def __init__(self, fn, args):
        self.fn, self.args, self.ty = fn, list(args), fn.ret


class JetCall(Node):
    def __init__(self, jet, args, ret_ty):
        self.jet, self.args, self.ty = jet, list(args), ret_ty


class Unwrap(Node):
    def __init__(self, e):
        self.e, self.ty = e, e.ty[1]


class UnwrapLeft(Node):
    def __init__(self, e):
        self.e, self.ty = e, e.ty[1]


class UnwrapRight(Node):
    def __init__(self, e):
        self.e, self.ty = e, e.ty[2]


class IsNone(Node):
    def __init__(self, e):
        self.e, self.ty = e, BOOL


class Assert(Node):
    def __init__(self, e):
        self.e, self.ty = e, UNIT


class Panic(Node):
    def __init__(self, ty=UNIT):
        self.ty = ty


class Dbg(Node):
    def __init__(self, e):
        self.e, self.ty = e, e.ty


class Cast(Node):
    def __init__(self, e, to_ty):
        self.e, self.ty = e, to_ty


class Fold(Node):
    def __init__(self, fn, bound, lst, init):
        self.fn, self.bound, self.lst, self.init, self.ty = fn, bound, lst, init, fn.ret


class ForWhile(Node):
    def __init__(self, fn, acc, ctx):
        self.fn, self.acc, self.ctx, self.ty = fn, acc, ctx, fn.ret


class Program:
    def __init__(self, fns, main_body, aliases=None):
        """fns: [FnDef] in definition order; main_body: Block of type unit;
        aliases: [(name, ty)] printed as `type name = ty;` and used when printing types"""
        self.fns, self.main, self.aliases = list(fns), main_body, list(aliases or [])


# ----------------------------------------------------------------------------------------
# printer


class Printer:
    def __init__(self, aliases=None, style=0):
        self.al = {t: n for n, t in (aliases or [])}
        self.style = style

    def ty(self, t):
        return ty_str(t, self.al)

    def lit(self, e):
        if e.text is not None:
            return e.text
        n = e.ty[1]
        if e.fmt == "hex":
            return "0x%0*x" % (n // 4, e.v)
        if e.fmt == "bin":
            return "0b" + format(e.v, "0%db" % n)
        return str(e.v)

    def pat(self, p):
        if isinstance(p, PVar):
            return p.name
        if isinstance(p, PIgnore):
            return "_"
        if isinstance(p, PTuple):
            if len(p.elems) == 1:
                return "(%s,)" % self.pat(p.elems[0])
            return "(" + ", ".join(self.pat(x) for x in p.elems) + ")"
        if isinstance(p, PArray):
            return "[" + ", ".join(self.pat(x) for x in p.elems) + "]"
        raise ValueError(p)

    def args(self, es):
        return "(" + ", ".join(self.expr(a) for a in es) + ")"

    def block(self, b, ind):
        pad = "    " * (ind + 1)
        out = ["{"]
        for s in b.stmts:
            if isinstance(s, Let):
                out.append("%slet %s: %s = %s;" % (pad, self.pat(s.pat), self.ty(s.ty), self.expr(s.e, ind + 1)))
            else:
                out.append("%s%s;" % (pad, self.expr(s.e, ind + 1)))
        if b.expr is not None:
            out.append(pad + self.expr(b.expr, ind + 1))
        out.append("    " * ind + "}")
        return "\n".join(out)

    def arm(self, a, ind):
        k = a.kind
        if k in ("false", "true"):
            p = k
        elif k == "none":
            p = "None"
        else:
            p = "%s(%s: %s)" % ({"some": "Some", "left": "Left", "right": "Right"}[k], a.var, self.ty(a.var_ty))
        return "%s => %s," % (p, self.expr(a.expr, ind))

    def expr(self, e, ind=0):
        if isinstance(e, Lit):
            return self.lit(e)
        if isinstance(e, HexBytes):
            return e.text if e.text is not None else "0x" + e.data.hex()
        if isinstance(e, BoolLit):
            return "true" if e.v else "false"
        if isinstance(e, Wit):
            return "witness::" + e.name
        if isinstance(e, Param):
            return "param::" + e.name
        if isinstance(e, Var):
            return e.name
        if isinstance(e, Paren):
            return "(" + self.expr(e.e, ind) + ")"
        if isinstance(e, TupleE):
            if len(e.elems) == 1:
                return "(%s,)" % self.expr(e.elems[0], ind)
            return "(" + ", ".join(self.expr(x, ind) for x in e.elems) + ")"
        if isinstance(e, ArrayE):
            return "[" + ", ".join(self.expr(x, ind) for x in e.elems) + "]"
        if isinstance(e, ListE):
            return "list![" + ", ".join(self.expr(x, ind) for x in e.elems) + "]"
        if isinstance(e, NoneE):
            return "None"
        if isinstance(e, SomeE):
            return "Some(%s)" % self.expr(e.e, ind)
        if isinstance(e, LeftE):
            return "Left(%s)" % self.expr(e.e, ind)
        if isinstance(e, RightE):
            return "Right(%s)" % self.expr(e.e, ind)
        if isinstance(e, Block):
            return self.block(e, ind)
        if isinstance(e, Match):
            pad = "    " * (ind + 1)
            return "match %s {\n%s%s\n%s%s\n%s}" % (
                self.expr(e.scrut, ind), pad, self.arm(e.arms[0], ind + 1), pad,
                self.arm(e.arms[1], ind + 1), "    " * ind)
        if isinstance(e, Call):
            return e.fn.name + self.args(e.args)
        if isinstance(e, JetCall):
            return "jet::" + e.jet + self.args(e.args)
        if isinstance(e, Unwrap):
            return "unwrap" + self.args([e.e])
        if isinstance(e, UnwrapLeft):
            return "unwrap_left::<%s>%s" % (self.ty(e.e.ty[2]), self.args([e.e]))
        if isinstance(e, UnwrapRight):
            return "unwrap_right::<%s>%s" % (self.ty(e.e.ty[1]), self.args([e.e]))
        if isinstance(e, IsNone):
            return "is_none::<%s>%s" % (self.ty(e.e.ty[1]), self.args([e.e]))
        if isinstance(e, Assert):
            return "assert!" + self.args([e.e])
        if isinstance(e, Panic):
            return "panic!()"
        if isinstance(e, Dbg):
            return "dbg!" + self.args([e.e])
        if isinstance(e, Cast):
            return "<%s>::into%s" % (self.ty(e.e.ty), self.args([e.e]))
        if isinstance(e, Fold):
            return "fold::<%s, %d>%s" % (e.fn.name, e.bound, self.args([e.lst, e.init]))
        if isinstance(e, ForWhile):
            return "for_while::<%s>%s" % (e.fn.name, self.args([e.acc, e.ctx]))
        raise ValueError(e)

    def program(self, p):
        out = []
        for n, t in p.aliases:
            # the alias's own definition must not be printed through itself
            saved = self.al.pop(t, None)
            out.append("type %s = %s;" % (n, self.ty(t)))
            if saved is not None:
                self.al[t] = saved
        for f in p.fns:
            ps = ", ".join("%s: %s" % (n, self.ty(t)) for n, t in f.params)
            ret = "" if f.ret == UNIT and self.style == 0 else " -> %s" % self.ty(f.ret)
            out.append("fn %s(%s)%s %s" % (f.name, ps, ret, self.block(f.body, 0)))
        out.append("fn main() %s" % self.block(p.main, 0))
        return "\n\n".join(out) + "\n"


def program_text(p, style=0):
    return Printer(p.aliases, style).program(p)


# ----------------------------------------------------------------------------------------
# specification: symbolic big-step evaluation of the source semantics


class SpecError(Exception):
    pass


class Spec:
    def __init__(self, witness, args=None, interpret=True, uf_prefix="jet_", mutate=None):
        """witness: callable(name, ty) -> source value.  args: name -> source value.
        mutate: optional set of deliberate deviations used as canaries."""
        self.witness = witness
        self.args = args or {}
        self.interpret = interpret
        self.uf_prefix = uf_prefix
        self.mut = mutate or set()
        self.calls = []  # (kind, text-less id, path-insensitive argument value bits)
        self.steps = 0

    # environment: list of scopes, each a list of (name, value) in binding order
    def lookup(self, env, name):
        if "outer_binding" in self.mut:
            for scope in env:
                for n, v in scope:
                    if n == name:
                        return v
        for scope in reversed(env):
            for n, v in reversed(scope):
                if n == name:
                    return v
        raise SpecError("unbound variable %s" % name)

    def bind(self, scope, pat, ty, val):
        if isinstance(pat, PVar):
            scope.append((pat.name, val))
        elif isinstance(pat, PIgnore):
            pass
        elif isinstance(pat, PTuple):
            assert ty[0] == "tuple" and len(ty[1]) == len(pat.elems)
            for p, t, v in zip(pat.elems, ty[1], val):
                self.bind(scope, p, t, v)
        elif isinstance(pat, PArray):
            assert ty[0] == "array" and ty[2] == len(pat.elems)
            for p, v in zip(pat.elems, val):
                self.bind(scope, p, ty[1], v)
        else:
            raise SpecError("pattern")

    def run(self, prog):
        v, f = self.block(prog.main, [[]])
        return f

    def block(self, b, env):
        env = env + [[]]
        fails = T.false()
        for s in b.stmts:
            if isinstance(s, Let):
                v, f = self.eval(s.e, env)
                fails = T.or_(fails, f)
                self.bind(env[-1], s.pat, s.ty, v)
            else:
                v, f = self.eval(s.e, env)
                fails = T.or_(fails, f)
        if b.expr is not None:
            v, f = self.eval(b.expr, env)
            return v, T.or_(fails, f)
        return (), fails

    def call_fn(self, fn, argvals):
        scope = []
        for (n, t), v in zip(fn.params, argvals):
            scope.append((n, v))
        return self.block(fn.body, [scope])

    def jet(self, name, argbits, ret_ty):
        wt = width(ret_ty)
        if name == "verify":
            return (), T.not_(argbits)
        model = J.model_for(name, self.interpret)
        if model is not None:
            out = model(argbits)
            return from_bits(ret_ty, out), T.false()
        out = T.uf(self.uf_prefix + name, argbits, wt) if wt else None
        fails = T.false() if name in J.NEVER_FAILS else T.uf(self.uf_prefix + "fails_" + name, argbits, 1)
        if out is None:
            return from_bits(ret_ty, None) if ret_ty[0] in ("tuple", "array") else (), fails
        # canonicalise the uninterpreted output through the book layout (drops padding junk)
        v = from_bits(ret_ty, out)
        return v, fails

    def eval(self, e, env):
        self.steps += 1
        if isinstance(e, Lit):
            return T.const(e.ty[1], e.v), T.false()
        if isinstance(e, HexBytes):
            return tuple(T.const(8, b) for b in e.data), T.false()
        if isinstance(e, BoolLit):
            return (T.true() if e.v else T.false()), T.false()
        if isinstance(e, Wit):
            return self.witness(e.name, e.ty), T.false()
        if isinstance(e, Param):
            return self.args[e.name], T.false()
        if isinstance(e, Var):
            return self.lookup(env, e.name), T.false()
        if isinstance(e, Paren):
            return self.eval(e.e, env)
        if isinstance(e, (TupleE, ArrayE)):
            vals, fails = [], T.false()
            for x in e.elems:
                v, f = self.eval(x, env)
                vals.append(v)
                fails = T.or_(fails, f)
            return tuple(vals), fails
        if isinstance(e, ListE):
            vals, fails = [], T.false()
            for x in e.elems:
                v, f = self.eval(x, env)
                vals.append(v)
                fails = T.or_(fails, f)
            return list_value(e.ty, vals), fails
        if isinstance(e, NoneE):
            return VOpt(T.false(), default(e.ty[1])), T.false()
        if isinstance(e, SomeE):
            v, f = self.eval(e.e, env)
            return VOpt(T.true(), v), f
        if isinstance(e, LeftE):
            v, f = self.eval(e.e, env)
            return VEi(T.false(), v, default(e.ty[2])), f
        if isinstance(e, RightE):
            v, f = self.eval(e.e, env)
            return VEi(T.true(), default(e.ty[1]), v), f
        if isinstance(e, Block):
            return self.block(e, env)
        if isinstance(e, Match):
            return self.match(e, env)
        if isinstance(e, Call):
            vals, fails = self.eval_args(e.args, env)
            v, f = self.call_fn(e.fn, vals)
            return v, T.or_(fails, f)
        if isinstance(e, JetCall):
            vals, fails = self.eval_args(e.args, env)
            if "jet_swap_args" in self.mut and len(vals) >= 2 and e.args[0].ty == e.args[1].ty:
                vals[0], vals[1] = vals[1], vals[0]  # canary: arguments reach the jet in the wrong order
            bits = T.cat([to_bits(a.ty, v) for a, v in zip(e.args, vals)])
            self.calls.append(("Jet", e, None, bits))
            v, f = self.jet(e.jet, bits, e.ty)
            return v, T.or_(fails, f)
        if isinstance(e, Unwrap):
            v, f = self.eval(e.e, env)
            self.calls.append(("Unwrap", e, e.e.ty, to_bits(e.e.ty, v)))
            return assume_value(v.val, e.ty, v.tag, 1), T.or_(f, T.not_(v.tag))
        if isinstance(e, UnwrapLeft):
            v, f = self.eval(e.e, env)
            self.calls.append(("UnwrapLeft", e, e.e.ty, to_bits(e.e.ty, v)))
            return assume_value(v.l, e.ty, v.tag, 0), T.or_(f, v.tag)
        if isinstance(e, UnwrapRight):
            v, f = self.eval(e.e, env)
            self.calls.append(("UnwrapRight", e, e.e.ty, to_bits(e.e.ty, v)))
            return assume_value(v.r, e.ty, v.tag, 1), T.or_(f, T.not_(v.tag))
        if isinstance(e, IsNone):
            v, f = self.eval(e.e, env)
            return T.not_(v.tag), f
        if isinstance(e, Assert):
            v, f = self.eval(e.e, env)
            self.calls.append(("Assert", e, BOOL, v))
            return (), T.or_(f, T.not_(v))
        if isinstance(e, Panic):
            return default(e.ty), T.true()
        if isinstance(e, Dbg):
            v, f = self.eval(e.e, env)
            self.calls.append(("Debug", e, e.e.ty, to_bits(e.e.ty, v)))
            return v, f
        if isinstance(e, Cast):
            v, f = self.eval(e.e, env)
            if width(e.e.ty) != width(e.ty):
                raise SpecError("cast between layouts of different width")
            return from_bits(e.ty, to_bits(e.e.ty, v)), f
        if isinstance(e, Fold):
            return self.fold(e, env)
        if isinstance(e, ForWhile):
            return self.for_while(e, env)
        raise SpecError("expression form %r" % e)

    def eval_args(self, args, env):
        vals, fails = [], T.false()
        for a in args:
            v, f = self.eval(a, env)
            vals.append(v)
            fails = T.or_(fails, f)
        return vals, fails

    def match(self, e, env):
        sv, sf = self.eval(e.scrut, env)
        st = e.scrut.ty
        if st[0] == "bool":
            tag = sv
        else:
            tag = sv.tag
        res = {}
        for arm in e.arms:
            side = arm.kind in ("true", "some", "right")
            if tag.op == "c" and bool(tag.val) != side:
                continue  # only the taken arm runs
            scope = []
            # the bound payload only matters when this arm is the taken one
            if arm.kind == "some":
                scope.append((arm.var, assume_value(sv.val, arm.var_ty, tag, 1)))
            elif arm.kind == "left":
                scope.append((arm.var, assume_value(sv.l, arm.var_ty, tag, 0)))
            elif arm.kind == "right":
                scope.append((arm.var, assume_value(sv.r, arm.var_ty, tag, 1)))
            res[side] = self.eval(arm.expr, env + [scope])
        if tag.op == "c":
            v, f = res[bool(tag.val)]
            return v, T.or_(sf, f)
        (vr, fr), (vl, fl) = res[True], res[False]
        return merge(tag, vr, vl, e.ty), T.or_(sf, T.ite(tag, fr, fl))

    def fold(self, e, env):
        (lv, iv), fails = self.eval_args([e.lst, e.init], env)
        acc_ty = e.fn.ret
        acc = iv
        blocks = lv.blocks
        if "fold_reverse_blocks" in self.mut:
            blocks = list(reversed(blocks))
        for present, elems in blocks:
            if present.op == "c" and not present.val:
                continue
            a, bf = acc, T.false()
            it = list(elems)
            if "fold_reverse_elems" in self.mut:
                it.reverse()
            for x in it:
                a, f = self.call_fn(e.fn, [x, a])
                bf = T.or_(bf, f)
            acc = merge(present, a, acc, acc_ty)
            fails = T.or_(fails, T.and_(present, bf))
        return acc, fails

    def for_while(self, e, env):
        """first Left wins; iterations after it are not evaluated; Right(acc) after 2^n iterations.

        Written as the recursion  loop(i, acc) = match f(acc, ctx, i) { Left(b) => Left(b),
        Right(a) => loop(i + 1, a) }  unrolled from the last iteration backwards."""
        (av, cv), fails = self.eval_args([e.acc, e.ctx], env)
        fn = e.fn
        cw = fn.params[2][1][1]
        cut = getattr(self, "cut", None)
        if cut is not None:
            # compositional variant (C09, 16-bit counters): only the first `bits` counter bits are iterated here and one
            # iteration is an uninterpreted function of (acc, ctx, counter prefix) - the same symbol the machine uses
            # for the opaque sub-expression
            bits, name = cut
            aty, cty = fn.params[0][1], fn.params[1][1]

            def step(acc, i):
                arg = T.cat([to_bits(aty, acc), to_bits(cty, cv), T.const(bits, i)])
                return from_bits(fn.ret, T.uf(name, arg, width(fn.ret))), T.uf(name + "_fails", arg, 1)

            result, rest_fails = self.loop_first_left(fn.ret, av, list(range(1 << bits)), step)
            return result, T.or_(fails, rest_fails)
        order = list(range(1 << cw))
        if "fw_bitrev" in self.mut:  # canary: counter halves regrouped in the wrong order
            order = [int(format(i, "0%db" % cw)[::-1], 2) for i in order]
        result, rest_fails = self.loop_first_left(fn.ret, av, order, lambda acc, i: self.call_fn(fn, [acc, cv, T.const(cw, i)]))
        return result, T.or_(fails, rest_fails)

    def loop_first_left(self, ret_ty, av, order, step):
        """the loop of for_while over the counter values `order`; step(acc, i) -> (Either value, fails)"""
        steps = []
        acc = av
        for i in order:
            r, f = step(acc, i)
            steps.append((r, f))
            if r.tag.op == "c" and not r.tag.val and "fw_no_stop" not in self.mut:
                break  # certainly exits here
            if f.op == "c" and f.val:
                break  # certainly panics here
            acc = r.r
        else:
            steps.append((VEi(T.true(), default(ret_ty[1]), acc), T.false()))
        result, rest_fails = steps[-1]
        for r, f in reversed(steps[:-1]):
            cont = r.tag  # Right: continue
            if "fw_no_stop" in self.mut:
                rest_fails = T.or_(f, rest_fails)
                continue
            result = merge(cont, result, r, ret_ty)
            rest_fails = T.or_(f, T.and_(cont, rest_fails))
        return result, rest_fails


# ----------------------------------------------------------------------------------------
# tracked call sites (debug symbols): what the book-level program text says should be tracked


def _nows(s):
    return "".join(s.split())


def tracked_calls(prog):
    """set of (kind, text without whitespace) of every assert!/panic!/unwrap*/dbg!/jet call that is part of
    the code reachable from main (function bodies are inlined at their call sites)"""
    pr = Printer(prog.aliases)
    out = set()
    seen_fns = set()

    def walk(e):
        if e is None:
            return
        if isinstance(e, (Lit, HexBytes, BoolLit, Wit, Param, Var, NoneE)):
            return
        if isinstance(e, Paren):
            return walk(e.e)
        if isinstance(e, (TupleE, ArrayE, ListE)):
            for x in e.elems:
                walk(x)
            return
        if isinstance(e, (SomeE, LeftE, RightE)):
            return walk(e.e)
        if isinstance(e, Block):
            for s in e.stmts:
                walk(s.e)
            return walk(e.expr)
        if isinstance(e, Match):
            walk(e.scrut)
            for a in e.arms:
                walk(a.expr)
            return
        if isinstance(e, Call):
            for a in e.args:
                walk(a)
            return walk_fn(e.fn)
        if isinstance(e, JetCall):
            out.add(("Jet", _nows(pr.expr(e))))
            for a in e.args:
                walk(a)
            return
        if isinstance(e, Unwrap):
            out.add(("Unwrap", _nows(pr.expr(e))))
            return walk(e.e)
        if isinstance(e, UnwrapLeft):
            out.add(("UnwrapLeft", _nows(pr.expr(e))))
            return walk(e.e)
        if isinstance(e, UnwrapRight):
            out.add(("UnwrapRight", _nows(pr.expr(e))))
            return walk(e.e)
        if isinstance(e, Assert):
            out.add(("Assert", _nows(pr.expr(e))))
            return walk(e.e)
        if isinstance(e, Panic):
            out.add(("Panic", _nows(pr.expr(e))))
            return
        if isinstance(e, Dbg):
            out.add(("Debug", _nows(pr.expr(e.e))))
            return walk(e.e)
        if isinstance(e, (IsNone, Cast)):
            return walk(e.e)
        if isinstance(e, Fold):
            walk(e.lst)
            walk(e.init)
            return walk_fn(e.fn)
        if isinstance(e, ForWhile):
            walk(e.acc)
            walk(e.ctx)
            return walk_fn(e.fn)
        raise SpecError("tracked_calls: %r" % e)

    def walk_fn(f):
        if id(f) in seen_fns:
            return
        seen_fns.add(id(f))
        walk(f.body)

    walk(prog.main)
    return out


def scan_tracked_calls(text):
    """the same set for a program given as TEXT only (shipped examples): a small scanner, independent of the real
    parser - comments removed, then every `assert!(`, `panic!(`, `dbg!(`, `unwrap(`, `unwrap_left::<..>(`,
    `unwrap_right::<..>(`, `jet::name(` with its balanced argument list.  Returns a set of (kind, text without
    whitespace); dbg! is recorded with the text of its ARGUMENT (that is what the library tracks)."""
    import re
    src = re.sub(r"/\*.*?\*/", " ", text, flags=re.S)
    src = re.sub(r"//[^\n]*", " ", src)
    out = set()
    pat = re.compile(r"(?<![A-Za-z0-9_])(assert!|panic!|dbg!|unwrap_left|unwrap_right|unwrap|jet::[a-z0-9_]+)\s*(::\s*<)?")
    for m in pat.finditer(src):
        head = m.group(1)
        i = m.end()
        if m.group(2):
            depth = 1
            while i < len(src) and depth:
                depth += {"<": 1, ">": -1}.get(src[i], 0)
                i += 1
        while i < len(src) and src[i].isspace():
            i += 1
        if i >= len(src) or src[i] != "(":
            continue
        j, depth = i + 1, 1
        while j < len(src) and depth:
            depth += {"(": 1, ")": -1}.get(src[j], 0)
            j += 1
        if depth:
            continue
        kind = {"assert!": "Assert", "panic!": "Panic", "dbg!": "Debug", "unwrap": "Unwrap", "unwrap_left": "UnwrapLeft",
                "unwrap_right": "UnwrapRight"}.get(head, "Jet")
        body = src[i + 1:j - 1] if kind == "Debug" else src[m.start():j]
        out.add((kind, _nows(body)))
    return out
