"""Hash-consed bit-vector term layer with local simplification and SMT-LIB2 emission.

Everything is a bit-vector; truth values are (_ BitVec 1).  A zero-width value is
represented by Python None at the call sites (see cat/ext helpers).

The constructors fold constants, so running the symbolic machines on constant inputs
is a concrete interpreter (used for translator validation and replay).
"""
import subprocess, time, re, sys, os

sys.setrecursionlimit(1000000)


class Term:
    __slots__ = ("op", "w", "args", "val", "id", "cm")

    def __repr__(self):
        if self.op == "c":
            return "#%d'%x" % (self.w, self.val)
        if self.op == "v":
            return "%s:%d" % (self.val, self.w)
        return "<%s/%d #%d>" % (self.op, self.w, self.id)


# RAW mode: only constant folding and structural extraction/concatenation bookkeeping; none of the
# if-then-else normal form, don't-care pruning or equality pushing.  Used to let the solver decide the
# un-normalised goal for a sample of cases, which cross-checks the rewriting rules.
RAW = [False]

_table = {}
_next_id = [0]
_ext_memo = {}
_eq_memo = {}


def reset():
    _table.clear()
    _next_id[0] = 0
    _assume_memo.clear()
    _ext_memo.clear()
    _eq_memo.clear()


def n_terms():
    return _next_id[0]


def _mk(op, w, args, val=None):
    key = (op, w, val, tuple(a.id for a in args))
    t = _table.get(key)
    if t is None:
        t = Term()
        t.op = op
        t.w = w
        t.args = args
        t.val = val
        t.id = _next_id[0]
        _next_id[0] += 1
        # cm: over-approximate set (bit mask) of the conditions that occur in the if-then-else /
        # concatenation / extraction structure of the term; lets assume_deep stop early
        if op == "ite":
            t.cm = (1 << (args[0].id & 1023)) | args[1].cm | args[2].cm
            if args[0].op in ("and", "or", "not"):
                for q in args[0].args:
                    t.cm |= 1 << ((q.args[0].id if q.op == "not" else q.id) & 1023)
        elif op in ("cat", "ext"):
            m = 0
            for a in args:
                m |= a.cm
            t.cm = m
        else:
            t.cm = 0
        _table[key] = t
    return t


def const(w, v):
    assert w > 0
    return _mk("c", w, (), v & ((1 << w) - 1))


def true():
    return const(1, 1)


def false():
    return const(1, 0)


def var(name, w):
    assert w > 0
    return _mk("v", w, (), name)


def is_const(t):
    return t.op == "c"


def ext(x, hi, lo):
    """bits hi..lo (inclusive, lo = least significant = 0)"""
    assert 0 <= lo <= hi < x.w, (hi, lo, x.w)
    w = hi - lo + 1
    if w == x.w:
        return x
    op = x.op
    if op == "c":
        return const(w, x.val >> lo)
    if op == "ext":
        lo0 = x.val[1]
        return ext(x.args[0], hi + lo0, lo + lo0)
    if op == "cat":
        # parts MSB first; walk from the LSB end
        out = []
        pos = 0
        for p in reversed(x.args):
            p_lo, p_hi = pos, pos + p.w - 1
            pos += p.w
            if p_hi < lo:
                continue
            if p_lo > hi:
                break
            a = max(lo, p_lo) - p_lo
            b = min(hi, p_hi) - p_lo
            out.append(ext(p, b, a))
        out.reverse()
        return cat(out)
    if op == "ite" and RAW[0]:
        return _mk("ext", w, (x,), (hi, lo))
    if op == "ite":
        key = (x.id, hi, lo)
        r = _ext_memo.get(key)
        if r is None:
            r = ite(x.args[0], ext(x.args[1], hi, lo), ext(x.args[2], hi, lo))
            _ext_memo[key] = r
        return r
    if op in ("and", "or", "xor") :
        return _mk_bitwise(op, [ext(a, hi, lo) for a in x.args])
    if op == "not":
        return not_(ext(x.args[0], hi, lo))
    return _mk("ext", w, (x,), (hi, lo))


def cat(parts):
    """concatenation, MSB first; None parts (zero width) are dropped; may return None"""
    flat = []
    for p in parts:
        if p is None:
            continue
        if p.op == "cat":
            flat.extend(p.args)
        else:
            flat.append(p)
    if not flat:
        return None
    out = []
    for p in flat:
        if out:
            q = out[-1]
            if q.op == "c" and p.op == "c":
                out[-1] = const(q.w + p.w, (q.val << p.w) | p.val)
                continue
            if (
                q.op == "ext"
                and p.op == "ext"
                and q.args[0] is p.args[0]
                and q.val[1] == p.val[0] + 1
            ):
                out[-1] = ext(q.args[0], q.val[0], p.val[1])
                continue
        out.append(p)
    if len(out) == 1:
        return out[0]
    # a merged ext may itself have become a cat-able thing; keep simple
    return _mk("cat", sum(p.w for p in out), tuple(out))


def zeros(w):
    return const(w, 0) if w > 0 else None


def ones(w):
    return const(w, (1 << w) - 1) if w > 0 else None


def not_(a):
    if a.op == "c":
        return const(a.w, ~a.val)
    if a.op == "not":
        return a.args[0]
    return _mk("not", a.w, (a,))


def _mk_bitwise(op, args):
    w = args[0].w
    full = (1 << w) - 1
    flat = []
    for a in args:
        if a.op == op and op != "xor":
            flat.extend(a.args)
        else:
            flat.append(a)
    if op == "xor":
        acc = 0
        rest = []
        for a in flat:
            if a.op == "c":
                acc ^= a.val
            else:
                rest.append(a)
        if not rest:
            return const(w, acc)
        if acc:
            rest.append(const(w, acc))
        if len(rest) == 1:
            return rest[0]
        if len(rest) == 2 and rest[0] is rest[1]:
            return const(w, 0)
        return _mk("xor", w, tuple(rest))
    acc = full if op == "and" else 0
    seen = {}
    rest = []
    for a in flat:
        if a.op == "c":
            acc = (acc & a.val) if op == "and" else (acc | a.val)
        elif a.id not in seen:
            seen[a.id] = a
            rest.append(a)
    if op == "and" and acc == 0:
        return const(w, 0)
    if op == "or" and acc == full:
        return const(w, full)
    if w == 1:
        for a in rest:
            if a.op == "not" and a.args[0].id in seen:
                return const(1, 0 if op == "and" else 1)
    if not rest:
        return const(w, acc)
    if (op == "and" and acc != full) or (op == "or" and acc != 0):
        rest.append(const(w, acc))
    if len(rest) == 1:
        return rest[0]
    rest.sort(key=lambda t: t.id)
    return _mk(op, w, tuple(rest))


def and_(*args):
    return _mk_bitwise("and", list(args))


def or_(*args):
    return _mk_bitwise("or", list(args))


def xor(*args):
    return _mk_bitwise("xor", list(args))


def implies(a, b):
    return or_(not_(a), b)


def _ite_raw(c, a, b):
    """rebuild an if-then-else whose branches are already simplified under c"""
    if a is b:
        return a
    if c.op == "c":
        return a if c.val else b
    if c.op in ("not", "and", "or") or a.w == 1:
        return ite(c, a, b)
    return _mk("ite", a.w, (c, a, b))


def ite(c, a, b):
    """c: 1-bit term.  Normal form: a decision list - conditions are never negations, conjunctions
    or disjunctions (those are split), and each branch is simplified under its own condition."""
    if a is None:
        return None
    assert c.w == 1 and a.w == b.w, (c.w, a.w, b.w)
    if c.op == "c":
        return a if c.val else b
    if a is b:
        return a
    if RAW[0]:
        return _mk("ite", a.w, (c, a, b))
    if c.op == "not":
        return ite(c.args[0], b, a)
    if a.w > 1 or a.op == "ite" or b.op == "ite":
        # split conjunctions / disjunctions, simplifying the branches under each literal first
        if c.op == "and":
            c1 = c.args[0]
            rest = _mk_bitwise("and", list(c.args[1:]))
            return ite(c1, ite(rest, assume_deep(a, c1, 1), assume_deep(b, c1, 1)), assume_deep(b, c1, 0))
        if c.op == "or":
            c1 = c.args[0]
            rest = _mk_bitwise("or", list(c.args[1:]))
            return ite(c1, assume_deep(a, c1, 1), ite(rest, assume_deep(a, c1, 0), assume_deep(b, c1, 0)))
    a = assume_deep(a, c, 1)
    b = assume_deep(b, c, 0)
    if a is b:
        return a
    if a.w == 1 and a.op == "c" and b.op == "c":
        return c if a.val == 1 else not_(c)
    if a.w == 1:
        if a.op == "c":
            return or_(c, b) if a.val else and_(not_(c), b)
        if b.op == "c":
            return or_(not_(c), a) if b.val else and_(c, a)
    return _mk("ite", a.w, (c, a, b))


_assume_memo = {}


def assume_deep(t, c, val, depth=2000):
    """simplify t knowing the 1-bit term c has value val, following if-then-else, concatenation
    and extraction structure only"""
    if RAW[0]:
        return t
    if c.op == "not":
        c, val = c.args[0], 1 - val
    if t.op not in ("ite", "cat", "ext"):
        return assume(t, c, val) if t.w == 1 else t
    if not (t.cm >> (c.id & 1023)) & 1:
        return t
    key = (t.id, c.id, val)
    r = _assume_memo.get(key)
    if r is not None:
        return r
    if depth <= 0:
        r = t
    elif t.op == "cat":
        parts = [assume_deep(p, c, val, depth - 1) for p in t.args]
        r = t if all(p is q for p, q in zip(parts, t.args)) else cat(parts)
    elif t.op == "ext":
        x = assume_deep(t.args[0], c, val, depth - 1)
        r = t if x is t.args[0] else ext(x, t.val[0], t.val[1])
    else:
        c2, x, y = t.args
        if c2 is c:
            r = x if val else y
        else:
            x2 = assume_deep(x, c, val, depth - 1)
            y2 = assume_deep(y, c, val, depth - 1)
            c3 = assume(c2, c, val)
            if x2 is x and y2 is y and c3 is c2:
                r = t
            elif c3 is c2:
                r = _ite_raw(c2, x2, y2)
            else:
                r = ite(c3, x2, y2)
    _assume_memo[key] = r
    return r


def assume(t, c, val):
    """shallow simplification of the 1-bit term t knowing that the 1-bit term c has value val"""
    if RAW[0]:
        return t
    if t is c:
        return const(1, val)
    if t.op == "not" and t.args[0] is c:
        return const(1, 1 - val)
    if t.op == "ite" and t.args[0] is c:
        return t.args[1] if val else t.args[2]
    if t.op in ("and", "or") and t.w == 1:
        for a in t.args:
            if a is c or (a.op == "not" and a.args[0] is c):
                return _mk_bitwise(t.op, [assume(x, c, val) for x in t.args])
    return t


def eq(a, b):
    if a is None and b is None:
        return true()
    assert a.w == b.w, (a.w, b.w)
    if a is b:
        return true()
    if a.op == "c" and b.op == "c":
        return true() if a.val == b.val else false()
    if RAW[0]:
        if a.id > b.id:
            a, b = b, a
        return _mk("eq", 1, (a, b))
    if b.op == "c" and a.op != "c":
        a, b = b, a
    # a may be const now
    if a.op == "c":
        if b.w == 1:
            return b if a.val else not_(b)
        if b.op == "ite":
            # memoised: the if-then-else structure is a DAG, a plain recursion would be exponential
            key = (a.val, b.id)
            r = _eq_memo.get(key)
            if r is None:
                r = ite(b.args[0], eq(a, b.args[1]), eq(a, b.args[2]))
                _eq_memo[key] = r
            return r
        if b.op == "cat":
            pos = b.w
            cs = []
            for p in b.args:
                pos -= p.w
                cs.append(eq(const(p.w, a.val >> pos), p))
            return and_(*cs)
    if a.op == "cat" and b.op == "cat" and len(a.args) == len(b.args) and all(
        p.w == q.w for p, q in zip(a.args, b.args)
    ):
        return and_(*[eq(p, q) for p, q in zip(a.args, b.args)])
    if a.w == 1:
        return not_(xor(a, b))
    if a.id > b.id:
        a, b = b, a
    return _mk("eq", 1, (a, b))


def _arith(op, a, b, f):
    assert a.w == b.w
    if a.op == "c" and b.op == "c":
        return const(a.w, f(a.val, b.val, a.w))
    return _mk(op, a.w, (a, b))


def add(a, b):
    if a.op == "c" and a.val == 0:
        return b
    if b.op == "c" and b.val == 0:
        return a
    return _arith("add", a, b, lambda x, y, w: x + y)


def sub(a, b):
    if b.op == "c" and b.val == 0:
        return a
    return _arith("sub", a, b, lambda x, y, w: x - y)


def mul(a, b):
    return _arith("mul", a, b, lambda x, y, w: x * y)


def udiv(a, b):
    # SMT-LIB: division by zero gives all ones
    return _arith("udiv", a, b, lambda x, y, w: (x // y) if y else (1 << w) - 1)


def urem(a, b):
    return _arith("urem", a, b, lambda x, y, w: (x % y) if y else x)


def ult(a, b):
    assert a.w == b.w
    if a.op == "c" and b.op == "c":
        return true() if a.val < b.val else false()
    if a is b:
        return false()
    return _mk("ult", 1, (a, b))


def ule(a, b):
    assert a.w == b.w
    if a.op == "c" and b.op == "c":
        return true() if a.val <= b.val else false()
    if a is b:
        return true()
    return _mk("ule", 1, (a, b))


def restrict_bit(x, pos, val, memo=None):
    """Simplify x under the assumption that bit `pos` of x equals `val`: alternatives of an
    if-then-else whose bit is the opposite constant cannot be the ones selected and are dropped."""
    if RAW[0]:
        return x
    if memo is None:
        memo = {}
    key = (x.id, pos)
    r = memo.get(key)
    if r is not None:
        return r
    r = x
    if x.op == "ite":
        c, a, b = x.args
        ba = ext(a, pos, pos)
        bb = ext(b, pos, pos)
        if ba.op == "c" and ba.val != val:
            r = restrict_bit(b, pos, val, memo)
        elif bb.op == "c" and bb.val != val:
            r = restrict_bit(a, pos, val, memo)
        else:
            r = ite(c, restrict_bit(a, pos, val, memo), restrict_bit(b, pos, val, memo))
    elif x.op == "cat":
        # find the part that holds the bit
        lo = x.w
        parts = list(x.args)
        for i, p in enumerate(parts):
            lo -= p.w
            if lo <= pos:
                if p.op in ("ite", "cat"):
                    parts[i] = restrict_bit(p, pos - lo, val, memo)
                    r = cat(parts)
                break
    memo[key] = r
    return r


def substitute(t, model, memo=None):
    """partial evaluation: replace the variables named in `model` by constants and re-simplify"""
    if memo is None:
        memo = {}
    stack = [t]
    while stack:
        x = stack[-1]
        if x.id in memo:
            stack.pop()
            continue
        pending = [a for a in x.args if a.id not in memo]
        if pending:
            stack.extend(pending)
            continue
        stack.pop()
        op = x.op
        av = [memo[a.id] for a in x.args]
        if op == "c":
            r = x
        elif op == "v":
            r = const(x.w, model[x.val]) if x.val in model else x
        elif all(p is q for p, q in zip(av, x.args)):
            r = x
        elif op == "cat":
            r = cat(av)
        elif op == "ext":
            r = ext(av[0], x.val[0], x.val[1])
        elif op == "ite":
            r = ite(av[0], av[1], av[2])
        elif op == "eq":
            r = eq(av[0], av[1])
        elif op == "not":
            r = not_(av[0])
        elif op in ("and", "or", "xor"):
            r = _mk_bitwise(op, av)
        elif op == "add":
            r = add(av[0], av[1])
        elif op == "sub":
            r = sub(av[0], av[1])
        elif op == "mul":
            r = mul(av[0], av[1])
        elif op == "udiv":
            r = udiv(av[0], av[1])
        elif op == "urem":
            r = urem(av[0], av[1])
        elif op == "ult":
            r = ult(av[0], av[1])
        elif op == "ule":
            r = ule(av[0], av[1])
        elif op == "uf":
            r = uf(x.val, av[0] if av else None, x.w)
        else:
            raise ValueError(op)
        memo[x.id] = r
    return memo[t.id]


def zext(a, w):
    if a is None:
        return zeros(w)
    assert w >= a.w
    return cat([zeros(w - a.w), a])


def uf(name, arg, w):
    """uninterpreted function of one bit-vector argument (arg may be None: a constant)"""
    if arg is None:
        return _mk("uf", w, (), name)
    return _mk("uf", w, (arg,), name)


# ----------------------------------------------------------------------------------------
# concrete evaluation under a model (for checking models / replay without the solver)


def evaluate(t, model, uf_model=None, memo=None):
    """model: var name -> int.  UF applications need uf_model[(name, argval)] or raise."""
    if memo is None:
        memo = {}
    stack = [t]
    while stack:
        x = stack[-1]
        if x.id in memo:
            stack.pop()
            continue
        pending = [a for a in x.args if a.id not in memo]
        if pending:
            stack.extend(pending)
            continue
        stack.pop()
        av = [memo[a.id] for a in x.args]
        w = x.w
        m = (1 << w) - 1
        op = x.op
        if op == "c":
            r = x.val
        elif op == "v":
            r = model.get(x.val, 0) & m
        elif op == "cat":
            r = 0
            for a, v in zip(x.args, av):
                r = (r << a.w) | v
        elif op == "ext":
            hi, lo = x.val
            r = (av[0] >> lo) & m
        elif op == "ite":
            r = av[1] if av[0] else av[2]
        elif op == "eq":
            r = 1 if av[0] == av[1] else 0
        elif op == "not":
            r = ~av[0] & m
        elif op == "and":
            r = m
            for v in av:
                r &= v
        elif op == "or":
            r = 0
            for v in av:
                r |= v
        elif op == "xor":
            r = 0
            for v in av:
                r ^= v
        elif op == "add":
            r = (av[0] + av[1]) & m
        elif op == "sub":
            r = (av[0] - av[1]) & m
        elif op == "mul":
            r = (av[0] * av[1]) & m
        elif op == "udiv":
            r = (av[0] // av[1]) if av[1] else m
        elif op == "urem":
            r = (av[0] % av[1]) if av[1] else av[0]
        elif op == "ult":
            r = 1 if av[0] < av[1] else 0
        elif op == "ule":
            r = 1 if av[0] <= av[1] else 0
        elif op == "uf":
            key = (x.val, av[0] if av else None)
            if uf_model is None or key not in uf_model:
                raise KeyError("uninterpreted %s" % (key,))
            r = uf_model[key] & m
        else:
            raise ValueError(op)
        memo[x.id] = r
    return memo[t.id]


# ----------------------------------------------------------------------------------------
# SMT-LIB2 emission


def _bv(w, v):
    if w % 4 == 0:
        return "#x%0*x" % (w // 4, v)
    return "#b" + format(v, "0%db" % w)


def _ident(name):
    return "|%s|" % name


_BOOL_OPS = ("and", "or", "not", "xor", "c")


def _is_atom(x):
    """for the propositional abstraction: a 1-bit term that is not a Boolean connective"""
    if x.w != 1:
        return False
    if x.op in _BOOL_OPS:
        return False
    if x.op == "ite":
        return False
    return True


def emit(goals, abstract=False):
    """Return (script_lines, vars, ufs) defining every term reachable from `goals`.

    Non-leaf terms become (define-fun tN () (_ BitVec w) ...).  `vars` maps name->width,
    `ufs` maps name->(argw or None, w).
    """
    order = []
    seen = set()
    stack = [(g, False) for g in goals]
    while stack:
        x, done = stack.pop()
        if done:
            order.append(x)
            continue
        if x.id in seen:
            continue
        seen.add(x.id)
        stack.append((x, True))
        if abstract and _is_atom(x):
            continue
        for a in x.args:
            if a.id not in seen:
                stack.append((a, False))
    vars_, ufs = {}, {}
    lines = []

    def ref(t):
        if t.op == "c":
            return _bv(t.w, t.val)
        if abstract and _is_atom(t):
            return "|abs_%d|" % t.id
        if t.op == "v":
            return _ident(t.val)
        return "t%d" % t.id

    for x in order:
        op = x.op
        if op == "c":
            continue
        if abstract and _is_atom(x):
            vars_["abs_%d" % x.id] = 1
            continue
        if op == "v":
            vars_[x.val] = x.w
            continue
        r = [ref(a) for a in x.args]
        if op == "cat":
            e = r[0]
            for p in r[1:]:
                e = "(concat %s %s)" % (e, p)
        elif op == "ext":
            e = "((_ extract %d %d) %s)" % (x.val[0], x.val[1], r[0])
        elif op == "ite":
            e = "(ite (= %s #b1) %s %s)" % (r[0], r[1], r[2])
        elif op == "eq":
            e = "(ite (= %s %s) #b1 #b0)" % (r[0], r[1])
        elif op == "not":
            e = "(bvnot %s)" % r[0]
        elif op in ("and", "or", "xor"):
            name = "bv" + op
            e = r[0]
            for p in r[1:]:
                e = "(%s %s %s)" % (name, e, p)
        elif op in ("add", "sub", "mul", "udiv", "urem"):
            e = "(bv%s %s %s)" % (op, r[0], r[1])
        elif op == "ult":
            e = "(ite (bvult %s %s) #b1 #b0)" % (r[0], r[1])
        elif op == "ule":
            e = "(ite (bvule %s %s) #b1 #b0)" % (r[0], r[1])
        elif op == "uf":
            if x.args:
                ufs[x.val] = (x.args[0].w, x.w)
                e = "(%s %s)" % (_ident(x.val), r[0])
            else:
                ufs[x.val] = (None, x.w)
                e = _ident(x.val)
        else:
            raise ValueError(op)
        lines.append("(define-fun t%d () (_ BitVec %d) %s)" % (x.id, x.w, e))
    return lines, vars_, ufs, ref


class SolverError(Exception):
    pass


def child_limits():
    """run in the child before exec: die with the parent, and cap the address space (a runaway solver
    must end as 'unknown', not take the machine down)"""
    try:
        import ctypes, signal, resource
        ctypes.CDLL("libc.so.6").prctl(1, signal.SIGKILL)  # PR_SET_PDEATHSIG
        gb = int(os.environ.get("VERIF_SOLVER_MEM_GB", "8"))
        resource.setrlimit(resource.RLIMIT_AS, (gb << 30, gb << 30))
    except Exception:
        pass


class Solver:
    """One long-lived solver process; queries are batched with push/pop."""

    def __init__(self, kind="z3", timeout_s=120):
        self.kind = kind
        self.timeout_s = timeout_s
        if kind == "z3":
            cmd = ["z3", "-in", "-smt2"]
        elif kind == "z3-new":
            cmd = ["z3-new", "-in", "-smt2"]
        elif kind == "cvc5":
            cmd = ["cvc5", "--incremental", "--lang", "smt2", "--produce-models",
                   "--tlimit-per=%d" % (timeout_s * 1000)]
        else:
            raise ValueError(kind)
        # no preexec_fn: forking Python code in a process that has threads (watchdog timers) can deadlock;
        # setpriv / prlimit give the same protection (die with the parent, capped address space)
        gb = int(os.environ.get("VERIF_SOLVER_MEM_GB", "8"))
        cmd = ["setpriv", "--pdeathsig", "KILL", "prlimit", "--as=%d" % (gb << 30)] + cmd
        self.p = subprocess.Popen(cmd, stdin=subprocess.PIPE, stdout=subprocess.PIPE,
                                  stderr=subprocess.STDOUT, text=True, bufsize=1)
        self.declared = {}
        self.abstract_tried = 0
        self.abstract_closed = 0
        self.time = 0.0
        self.queries = 0
        self._send("(set-option :print-success false)")
        if kind.startswith("z3"):
            self._send("(set-option :timeout %d)" % (timeout_s * 1000))
        self._send("(set-option :produce-models true)")
        self._send("(set-logic ALL)" if kind == "cvc5" else "(set-logic QF_UFBV)")

    def version(self):
        try:
            if self.kind == "cvc5":
                out = subprocess.run(["cvc5", "--version"], capture_output=True, text=True).stdout
                return out.splitlines()[0]
            out = subprocess.run([self.kind, "--version"], capture_output=True, text=True).stdout
            return out.strip()
        except Exception as e:  # pragma: no cover
            return "unknown (%s)" % e

    def _send(self, s):
        self.p.stdin.write(s + "\n")

    def _read_sexpr(self):
        """read one complete s-expression / atom line from the solver"""
        buf = ""
        depth = 0
        started = False
        while True:
            line = self.p.stdout.readline()
            if line == "":
                raise SolverError("solver died: " + buf)
            buf += line
            for ch in line:
                if ch == "(":
                    depth += 1
                    started = True
                elif ch == ")":
                    depth -= 1
            if buf.strip() and depth <= 0:
                return buf.strip()

    def restart(self):
        try:
            self.p.kill()
        except Exception:
            pass
        t, q = self.time, self.queries
        self.__init__(self.kind, self.timeout_s)
        self.time, self.queries = t, q

    def check(self, goal, want_model=True, timeout_s=None, abstract=False):
        """watchdog wrapper: a solver that does not answer within the time limit is killed and
        restarted, and the query is reported as unknown (never as a pass)"""
        import threading
        limit = timeout_s or self.timeout_s
        if goal.op != "c" and self.kind.startswith("z3"):
            self._send("(set-option :timeout %d)" % (limit * 1000))
        timer = threading.Timer(limit + 15, lambda: self.p.kill())
        timer.start()
        try:
            if abstract and goal.op != "c":
                # propositional abstraction: every non-Boolean 1-bit subterm becomes a free atom.
                # unsat under the abstraction implies unsat; anything else falls through to the full query
                r, _ = self._check(goal, False, abstract=True)
                self.abstract_tried += 1
                if r == "unsat":
                    self.abstract_closed += 1
                    return "unsat", None
            return self._check(goal, want_model)
        except (SolverError, BrokenPipeError, OSError) as e:
            self.restart()
            return "unknown", "solver killed after %ds (%s)" % (limit + 15, str(e)[:100])
        finally:
            timer.cancel()

    def _check(self, goal, want_model=True, abstract=False):
        """Is `goal` (a 1-bit term) satisfiable?  Returns ('unsat', None) | ('sat', model) |
        ('unknown', reason).  Any solver '(error' output is reported as 'unknown'."""
        t0 = time.time()
        self.queries += 1
        if goal.op == "c":
            self.time += time.time() - t0
            if goal.val == 0:
                return "unsat", None
            return "sat", {}
        lines, vars_, ufs, ref = emit([goal], abstract)
        self._send("(push 1)")
        for name, w in vars_.items():
            self._send("(declare-const %s (_ BitVec %d))" % (_ident(name), w))
        for name, (aw, w) in ufs.items():
            if aw is None:
                self._send("(declare-const %s (_ BitVec %d))" % (_ident(name), w))
            else:
                self._send("(declare-fun %s ((_ BitVec %d)) (_ BitVec %d))" % (_ident(name), aw, w))
        for l in lines:
            self._send(l)
        self._send("(assert (= %s #b1))" % ref(goal))
        self._send("(check-sat)")
        self.p.stdin.flush()
        ans = self._read_sexpr()
        result = None
        model = None
        if "(error" in ans:
            result = ("unknown", ans)
        elif ans == "unsat":
            result = ("unsat", None)
        elif ans == "sat":
            model = {}
            if want_model and vars_:
                names = list(vars_)
                for i in range(0, len(names), 200):
                    chunk = names[i:i + 200]
                    self._send("(get-value (%s))" % " ".join(_ident(n) for n in chunk))
                    self.p.stdin.flush()
                    out = self._read_sexpr()
                    if "(error" in out:
                        result = ("unknown", out)
                        break
                    for m in re.finditer(r"\(\s*\|([^|]*)\|\s+(#[xb][0-9a-fA-F]+)\s*\)", out):
                        lit = m.group(2)
                        model[m.group(1)] = int(lit[2:], 16 if lit[1] == "x" else 2)
            if result is None:
                result = ("sat", model)
        else:
            result = ("unknown", ans)
        self._send("(pop 1)")
        self.p.stdin.flush()
        self.time += time.time() - t0
        return result

    def close(self):
        try:
            self._send("(exit)")
            self.p.stdin.flush()
            self.p.wait(timeout=5)
        except Exception:
            self.p.kill()
