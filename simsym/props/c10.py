from ..families.c10 import main
