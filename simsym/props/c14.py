from ..families.c14 import main
