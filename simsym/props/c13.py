from ..families.c13 import main
