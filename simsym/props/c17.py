from ..families.c17 import main
