from .. import suite


def main():
    return suite.run_property(
        "C06", [], kani=True, level="model_checking",
        technique="bounded model checking of the real Rust kernels with Kani/CBMC (SAT): panic-freedom + functional assertions over symbolic digit strings, types, numbers and spans",
        functions=["value.rs: UIntValue::{u1,u2,u4,parse_decimal,parse_binary,try_from(&[u8])}, Value::parse_hexadecimal",
                   "num.rs: U256::from_str, Pow2Usize::new, NonZeroPow2Usize::{new,checked_div2,log2}", "error.rs: Span::new, Span::to_slice, Position::new",
                   "pest::Position::{new,line_col} (as the producer of spans)"],
        bounds={"decimal": "every digit string of the lengths around the width's maximum (u1..u64 quick, u128 thorough)", "binary": "lengths 1..32 (64 thorough) x every integer type",
                "hex": "0..4 digits (8, 16 thorough) x every integer type; byte arrays [u8;0..1] on the rejecting paths", "u256 decimal": "<= 5 digits (first digit concrete)",
                "spans": "every UTF-8 file of 3 bytes, every pair of char-boundary offsets a <= b <= len"},
        outside=["the pest-generated parser and the tree construction in parse.rs (unwraps that rely on the grammar's shape)", "ast.rs, module / JSON parsing, error rendering through core::fmt, stack depth",
                 "the accepting path of byte-array hex literals (Value::array over Arc<[Value]> runs CBMC out of memory); u256 decimals longer than 5 digits"],
        assumptions=["Kani's models of std", "ASCII stubs for str::chars (sound: the grammar only lets ASCII digits through)", "unwinding assertions are on: a too-small loop bound is reported, never ignored"],
    )
