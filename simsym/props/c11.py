from ..families.c11 import main
