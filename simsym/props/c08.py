from ..families.c08 import main
