from ..families.c07 import main
