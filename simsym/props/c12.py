from ..families.c12 import main
