from ..families.c09 import main
