from ..families.c01 import main
