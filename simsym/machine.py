"""Symbolic Bit Machine: denotational semantics of a dumped Simplicity DAG over terms.

A value of finalised type T is one bit-vector of width bit_width(T) in the Bit Machine's
padded layout (sum = tag bit, then max(|A|,|B|) payload bits, payload right-aligned,
padding zero).  All values produced here are canonical (padding zero, unselected payload
absent), so value equality is bit-vector equality.  Zero-width values are None.

eval(node, input) -> (output, fails) where fails is a 1-bit term.
"""
from . import terms as T
from . import jets as J


class Inconclusive(Exception):
    pass


class Program:
    def __init__(self, dump):
        self.nodes = dump["nodes"]
        self.types = dump["types"]
        self.root = dump["root"]
        self.witness_info = dump.get("witness", {})
        self.params = dump.get("params", {})
        self.tracked = dump.get("tracked", [])

    def width(self, tid):
        return self.types[tid]["w"]


class Machine:
    def __init__(self, prog, witness_terms=None, uf_prefix="jet_", interpret=True):
        """witness_terms: name -> Term (canonical, of the witness node's target width).
        If a name is missing a fresh variable `w_<name>` is created and canonicalised."""
        self.p = prog
        self.memo = {}
        self.wit = dict(witness_terms or {})
        self.wit_raw = {}
        self.interpret = interpret
        self.uf_prefix = uf_prefix
        self.evals = 0
        self.taps = []  # (node index, marker, tag term, args term)
        # marker entries with the condition (over case tags) under which the entry is reached in a run that does
        # not fail: key (node index, input term id) -> [marker, args term, reach condition]
        self.tap_reach = {}
        self._coll = []      # entries (key, relative reach condition) seen by the evaluation in progress
        self._tapmemo = {}   # eval key -> entries relative to that evaluation
        self.tap_overflow = False
        self.jet_inputs = []  # (jet name, input term)
        self._canon_memo = {}
        # node index -> name: the node is replaced by an uninterpreted function of its input (compositional
        # reasoning: a verdict obtained this way holds for every meaning the sub-expression could have)
        self.opaque = {}
        self.opaque_calls = 0

    # -- type helpers -------------------------------------------------------------------
    def ty(self, tid):
        return self.p.types[tid]

    def zero(self, tid):
        return T.zeros(self.ty(tid)["w"])

    def has_padding(self, tid):
        t = self.ty(tid)
        r = t.get("_pad")
        if r is None:
            if t["k"] == "unit":
                r = False
            elif t["k"] == "prod":
                r = self.has_padding(t["l"]) or self.has_padding(t["r"])
            else:
                wl, wr = self.ty(t["l"])["w"], self.ty(t["r"])["w"]
                r = wl != wr or self.has_padding(t["l"]) or self.has_padding(t["r"])
            t["_pad"] = r
        return r

    def canon(self, x, tid):
        """canonicalise an arbitrary bit-vector of the padded width of type tid"""
        if x is None:
            return None
        if not self.has_padding(tid):
            return x
        t = self.ty(tid)
        if t["k"] == "prod":
            wl, wr = self.ty(t["l"])["w"], self.ty(t["r"])["w"]
            a = self.canon(T.ext(x, x.w - 1, wr), t["l"]) if wl else None
            b = self.canon(T.ext(x, wr - 1, 0), t["r"]) if wr else None
            return T.cat([a, b])
        # sum
        wl, wr = self.ty(t["l"])["w"], self.ty(t["r"])["w"]
        mw = max(wl, wr)
        tag = T.ext(x, x.w - 1, x.w - 1)
        pl = self.canon(T.ext(x, wl - 1, 0), t["l"]) if wl else None
        pr = self.canon(T.ext(x, wr - 1, 0), t["r"]) if wr else None
        # tag bit outside, payload selected inside: the same shape the book-layout side produces (src.to_bits),
        # so that canonical witnesses / uninterpreted jet results meet syntactically on both sides
        if mw == 0:
            return tag
        left = T.cat([T.zeros(mw - wl), pl])
        right = T.cat([T.zeros(mw - wr), pr])
        return T.cat([tag, T.ite(tag, right, left)])

    # -- evaluation ---------------------------------------------------------------------
    def run(self):
        out, fails = self.eval(self.p.root, None)
        return fails

    def eval(self, idx, inp):
        key = (idx, inp.id if inp is not None else -1)
        r = self.memo.get(key)
        if r is not None:
            if not self.tap_overflow:
                self._coll.extend(self._tapmemo.get(key, ()))
                if len(self._coll) > 4000:
                    self.tap_overflow = True
            return r
        outer = self._coll
        self._coll = []
        r = self._eval(idx, inp)
        mine = self._coll
        self._coll = outer
        if mine and not self.tap_overflow:
            self._tapmemo[key] = mine
            outer.extend(mine)
            if len(outer) > 4000:
                self.tap_overflow = True
        self.memo[key] = r
        return r

    def _guard(self, mark, cond):
        """entries collected since `mark` are only reached when cond holds"""
        c = self._coll
        for i in range(mark, len(c)):
            k, rc = c[i]
            c[i] = (k, T.and_(cond, rc))

    def tap_conditions(self):
        """after run(): {key: (marker, args, reach)} with reach = disjunction over all paths from the root"""
        out = {}
        for k, rc in self._coll:
            marker, args = self.tap_reach[k]
            if k in out:
                out[k] = (marker, args, T.or_(out[k][2], rc))
            else:
                out[k] = (marker, args, rc)
        return out

    def _eval(self, idx, inp):
        self.evals += 1
        n = self.p.nodes[idx]
        k = n["k"]
        types = self.p.types
        if idx in self.opaque:
            name = self.opaque[idx]
            self.opaque_calls += 1
            wt = types[n["t"]]["w"]
            out = T.uf(name, inp, wt) if wt else None
            if out is not None and self.has_padding(n["t"]):
                out = self.canon(out, n["t"])
            return out, T.uf(name + "_fails", inp, 1)
        if k == "iden":
            return inp, T.false()
        if k == "unit":
            return None, T.false()
        if k == "comp":
            m, f1 = self.eval(n["l"], inp)
            if f1.op == "c" and f1.val == 1:
                return self.zero(n["t"]), f1
            o, f2 = self.eval(n["r"], m)
            return o, T.or_(f1, f2)
        if k == "pair":
            a, f1 = self.eval(n["l"], inp)
            b, f2 = self.eval(n["r"], inp)
            return T.cat([a, b]), T.or_(f1, f2)
        if k == "take" or k == "drop":
            st = types[n["s"]]
            assert st["k"] == "prod"
            wl, wr = types[st["l"]]["w"], types[st["r"]]["w"]
            if k == "take":
                sub = T.ext(inp, inp.w - 1, wr) if wl else None
            else:
                sub = T.ext(inp, wr - 1, 0) if wr else None
            return self.eval(n["l"], sub)
        if k == "injl" or k == "injr":
            o, f = self.eval(n["l"], inp)
            tt = types[n["t"]]
            assert tt["k"] == "sum"
            wl, wr = types[tt["l"]]["w"], types[tt["r"]]["w"]
            mw = max(wl, wr)
            if k == "injl":
                return T.cat([T.false(), T.zeros(mw - wl), o]), f
            return T.cat([T.true(), T.zeros(mw - wr), o]), f
        if k in ("case", "assertl", "assertr"):
            st = types[n["s"]]
            assert st["k"] == "prod"
            sumt = types[st["l"]]
            assert sumt["k"] == "sum"
            wa, wb = types[sumt["l"]]["w"], types[sumt["r"]]["w"]
            wc = types[st["r"]]["w"]
            tag = T.ext(inp, inp.w - 1, inp.w - 1)
            # Each branch only matters under its own tag value: alternatives of the input that are
            # known to carry the other tag are don't-cares for that branch and are pruned.
            inp_l = T.restrict_bit(inp, inp.w - 1, 0) if tag.op != "c" else inp
            inp_r = T.restrict_bit(inp, inp.w - 1, 1) if tag.op != "c" else inp
            if tag.op != "c":
                inp_l = T.assume_deep(inp_l, tag, 0)
                inp_r = T.assume_deep(inp_r, tag, 1)
            c = T.ext(inp, wc - 1, 0) if wc else None
            cl = T.ext(inp_l, wc - 1, 0) if wc else None
            cr = T.ext(inp_r, wc - 1, 0) if wc else None
            pa = T.ext(inp_l, wc + wa - 1, wc) if wa else None
            pb = T.ext(inp_r, wc + wb - 1, wc) if wb else None
            if k == "case":
                if tag.op == "c":
                    if tag.val:
                        return self.eval(n["r"], T.cat([pb, c]))
                    return self.eval(n["l"], T.cat([pa, c]))
                mark = len(self._coll)
                ol, fl = self.eval(n["l"], T.cat([pa, cl]))
                self._guard(mark, T.not_(tag))
                mark = len(self._coll)
                orr, fr = self.eval(n["r"], T.cat([pb, cr]))
                self._guard(mark, tag)
                return T.ite(tag, orr, ol), T.ite(tag, fr, fl)
            if k == "assertl":
                if "marker" in n:
                    args = T.cat([pa, c])
                    self.taps.append((idx, n["marker"], tag, args))
                    key = (idx, inp.id if inp is not None else -1)
                    self.tap_reach[key] = (n["marker"], args)
                    self._coll.append((key, T.true()))
                if tag.op == "c" and tag.val:
                    return self.zero(n["t"]), T.true()
                ol, fl = self.eval(n["l"], T.cat([pa, cl]))
                return ol, T.or_(tag, fl)
            # assertr
            if tag.op == "c" and not tag.val:
                return self.zero(n["t"]), T.true()
            orr, fr = self.eval(n["l"], T.cat([pb, cr]))
            return orr, T.or_(T.not_(tag), fr)
        if k == "fail":
            return self.zero(n["t"]), T.true()
        if k == "word":
            w = len(n["word"])
            return T.const(w, int(n["word"], 2)), T.false()
        if k == "witness":
            name = n["wit"]
            t = self.wit.get(name)
            w = types[n["t"]]["w"]
            if t is None:
                if w == 0:
                    t = None
                else:
                    raw = T.var("w_" + name, w)
                    self.wit_raw[name] = raw
                    t = self.canon(raw, n["t"])
                self.wit[name] = t
            else:
                assert (t.w if t is not None else 0) == w, "witness %s width" % name
            return t, T.false()
        if k == "jet":
            name = n["jet"]
            self.jet_inputs.append((name, inp, idx))
            wt = types[n["t"]]["w"]
            if name == "verify":
                return None, T.not_(inp)
            model = J.model_for(name, self.interpret)
            if True:
                if model is not None:
                    out = model(inp)
                    assert (out.w if out is not None else 0) == wt, (name, wt)
                    return out, T.false()
            out = T.uf(self.uf_prefix + name, inp, wt) if wt else None
            if out is not None and self.has_padding(n["t"]):
                out = self.canon(out, n["t"])
            fails = T.uf(self.uf_prefix + "fails_" + name, inp, 1)
            if name in J.NEVER_FAILS:
                fails = T.false()
            return out, fails
        raise Inconclusive("combinator %s not supported" % k)
