"""C08 - fold consumes list elements first to last, each exactly once.

Every case is one Simfony program containing one `fold::<f, N>(list, init)`; the solver decides,
for all element values / accumulators (and, in the uninterpreted mode, for every meaning of the
jets inside f), that the compiled program fails exactly when the left-to-right source-level
fold does and produces the same accumulator (observed through `assert!(eq(r, witness::EXP))`
with EXP universally quantified).
"""
import random

from ..src import *
from .. import engine as E
from .. import suite


U8, U16 = U(8), U(16)


def v(name, ty):
    return Var(name, ty)


def fn_uf8():
    # in uninterpreted mode `xor_8` is an arbitrary function u8 x u8 -> u8
    return FnDef("f", [("e", U8), ("acc", U8)], U8, Block([], JetCall("xor_8", [v("e", U8), v("acc", U8)], U8))), U8, U8


def fn_lin8():
    # acc' = 3*acc + e  (mod 256): every element and its position matter
    return FnDef("f", [("e", U8), ("acc", U8)], U8, Block([
        Let("m", U16, JetCall("multiply_8", [v("acc", U8), Lit(U8, 3)], U16)),
        Let("lo", U8, JetCall("rightmost_16_8", [v("m", U16)], U8)),
        Let(PTuple([PIgnore(), PVar("s")]), TUP(BOOL, U8), JetCall("add_8", [v("lo", U8), v("e", U8)], TUP(BOOL, U8))),
    ], v("s", U8))), U8, U8


def fn_sub8():
    # acc' = e - acc: cheap for the solver, sensitive to adjacent swaps, drops and duplicates
    return FnDef("f", [("e", U8), ("acc", U8)], U8, Block([
        Let(PTuple([PIgnore(), PVar("d")]), TUP(BOOL, U8), JetCall("subtract_8", [v("e", U8), v("acc", U8)], TUP(BOOL, U8))),
    ], v("d", U8))), U8, U8


def fn_panic():
    # panics unless the elements are non-decreasing; returns the element
    return FnDef("f", [("e", U8), ("acc", U8)], U8, Block([
        ExprStmt(Assert(JetCall("le_8", [v("acc", U8), v("e", U8)], BOOL))),
    ], v("e", U8))), U8, U8


def fn_pair():
    ET = TUP(U8, U8)
    return FnDef("f", [("e", ET), ("acc", U16)], U16, Block([
        Let(PTuple([PVar("a"), PVar("b")]), ET, v("e", ET)),
        Let("x", U16, JetCall("xor_16", [Cast(TupleE([v("b", U8), v("a", U8)]), U16), v("acc", U16)], U16)),
        Let(PTuple([PIgnore(), PVar("d")]), TUP(BOOL, U16),
            JetCall("subtract_16", [v("x", U16), JetCall("left_pad_low_8_16", [v("a", U8)], U16)], TUP(BOOL, U16))),
    ], v("d", U16))), ET, U16


def fn_opt():
    ET = OPT(U8)
    return FnDef("f", [("e", ET), ("acc", U8)], U8, Block([], Match(
        v("e", ET),
        Arm("none", JetCall("complement_8", [v("acc", U8)], U8)),
        Arm("some", Block([
            Let(PTuple([PIgnore(), PVar("d")]), TUP(BOOL, U8), JetCall("subtract_8", [v("x", U8), v("acc", U8)], TUP(BOOL, U8))),
        ], v("d", U8)), "x", U8),
    ))), ET, U8


def fn_arr3():
    ET = ARR(U8, 3)
    g = FnDef("g", [("e", U8), ("acc", U8)], U8, Block([
        Let(PTuple([PIgnore(), PVar("d")]), TUP(BOOL, U8), JetCall("subtract_8", [v("e", U8), v("acc", U8)], TUP(BOOL, U8))),
    ], v("d", U8)))
    f = FnDef("f", [("e", ET), ("acc", U8)], U8, Block([
        Let(PArray([PVar("a"), PVar("b"), PVar("c")]), ET, v("e", ET)),
    ], Call(g, [v("c", U8), Call(g, [v("b", U8), Call(g, [v("a", U8), v("acc", U8)])])])))
    return (g, f), ET, U8


CTX8 = TUP(LIST(U8, 64), TUP(U(64), U(256)))


def fn_sha():
    return FnDef("f", [("e", U8), ("acc", CTX8)], CTX8, Block([], JetCall("sha_256_ctx_8_add_1", [v("acc", CTX8), v("e", U8)], CTX8))), U8, CTX8


FNS = {"uf8": fn_uf8, "lin8": fn_lin8, "sub8": fn_sub8, "panic": fn_panic, "pair": fn_pair, "opt": fn_opt,
       "arr3": fn_arr3, "sha": fn_sha}


def observe(acc_ty, rvar):
    """statements making the final accumulator observable against a universally quantified witness"""
    if acc_ty == U8:
        return [ExprStmt(Assert(JetCall("eq_8", [v(rvar, U8), Wit("EXP", U8)], BOOL)))]
    if acc_ty == U16:
        return [ExprStmt(Assert(JetCall("eq_16", [v(rvar, U16), Wit("EXP", U16)], BOOL)))]
    if acc_ty == CTX8:
        # observe through the (uninterpreted) finalisation
        return [ExprStmt(Assert(JetCall("eq_256", [JetCall("sha_256_ctx_8_finalize", [v(rvar, CTX8)], U(256)), Wit("EXP", U(256))], BOOL)))]
    raise ValueError(acc_ty)


def build(fname, N, source, k=None):
    fs, ET, AT = FNS[fname]()
    fns = list(fs) if isinstance(fs, tuple) else [fs]
    f = fns[-1]
    LT = LIST(ET, N)
    wit_fixed = {}
    stmts = []
    if source == "literal":
        lst = ListE([Wit("E%d" % i, ET) for i in range(k)], ET, N)
        stmts.append(Let("l", LT, lst))
    elif source == "witness_len":
        stmts.append(Let("l", LT, Wit("L", LT)))
        wit_fixed["L"] = (LT, k)
    elif source == "witness_any":
        stmts.append(Let("l", LT, Wit("L", LT)))
    elif source == "function":
        # the list is computed: returned from a function that builds it from its parameters, in a match arm
        params = [("p%d" % i, ET) for i in range(k)]
        mk = FnDef("mk", params, LT, Block([], ListE([v(n, t) for n, t in params], ET, N)))
        short = max(0, k - 1)
        mk2 = FnDef("mk_short", params[:short], LT, Block([], ListE([v(n, t) for n, t in params[:short]], ET, N)))
        fns = fns + [mk, mk2]
        stmts.append(Let("l", LT, Match(Wit("WHICH", BOOL),
                                         Arm("false", Call(mk2, [Wit("E%d" % i, ET) for i in range(short)])),
                                         Arm("true", Call(mk, [Wit("F%d" % i, ET) for i in range(k)])))))
    else:
        raise ValueError(source)
    stmts.append(Let("r", AT, Fold(f, N, v("l", LT), Wit("INIT", AT))))
    stmts += observe(AT, "r")
    return Program(fns, Block(stmts)), wit_fixed


def build_multi(shape, fname):
    """several folds in one program: the same function at two bounds (sequential / chained), the same bound twice, the
    folded function also called directly, a fold inside a function plus one in main, two different functions"""
    fs, ET, AT = FNS[fname]()
    fns = list(fs) if isinstance(fs, tuple) else [fs]
    f = fns[-1]
    L8, L4 = LIST(ET, 8), LIST(ET, 4)
    stmts = []
    if shape == "two-bounds-seq":
        stmts += [Let("r1", AT, Fold(f, 8, Wit("L1", L8), Wit("INIT", AT))), Let("r", AT, Fold(f, 4, Wit("L2", L4), v("r1", AT)))]
    elif shape == "two-bounds-seq-small-first":
        stmts += [Let("r1", AT, Fold(f, 4, Wit("L2", L4), Wit("INIT", AT))), Let("r", AT, Fold(f, 8, Wit("L1", L8), v("r1", AT)))]
    elif shape == "two-bounds-chained":
        stmts += [Let("r", AT, Fold(f, 4, Wit("L2", L4), Fold(f, 8, Wit("L1", L8), Wit("INIT", AT))))]
    elif shape == "same-bound-twice":
        stmts += [Let("r1", AT, Fold(f, 4, Wit("L1", L4), Wit("INIT", AT))), Let("r", AT, Fold(f, 4, Wit("L2", L4), v("r1", AT)))]
    elif shape == "fold-and-direct-call":
        stmts += [Let("r1", AT, Call(f, [Wit("E", ET), Wit("INIT", AT)])), Let("r2", AT, Fold(f, 4, Wit("L2", L4), v("r1", AT))),
                  Let("r", AT, Call(f, [Wit("F", ET), v("r2", AT)]))]
    elif shape == "fold-in-function-and-main":
        g = FnDef("inner", [("l", L4), ("i", AT)], AT, Block([], Fold(f, 4, v("l", L4), v("i", AT))))
        fns = fns + [g]
        stmts += [Let("r1", AT, Call(g, [Wit("L2", L4), Wit("INIT", AT)])), Let("r2", AT, Fold(f, 8, Wit("L1", L8), v("r1", AT))),
                  Let("r", AT, Call(g, [Wit("L3", L4), v("r2", AT)]))]
    elif shape == "two-functions":
        f2 = FnDef("f2", [("e", ET), ("acc", AT)], AT, Block([], Call(f, [v("e", ET), Call(f, [v("e", ET), v("acc", AT)])])))
        fns = fns + [f2]
        stmts += [Let("r1", AT, Fold(f, 4, Wit("L1", L4), Wit("INIT", AT))), Let("r", AT, Fold(f2, 4, Wit("L2", L4), v("r1", AT)))]
    else:
        raise ValueError(shape)
    stmts += observe(AT, "r")
    return Program(fns, Block(stmts))


MULTI_SHAPES = ("two-bounds-seq", "two-bounds-seq-small-first", "two-bounds-chained", "same-bound-twice", "fold-and-direct-call",
                "fold-in-function-and-main", "two-functions")


def cases(tier, seed):
    rng = random.Random(seed)
    out = []
    for shape in MULTI_SHAPES:
        for fname, interpret in (("uf8", False), ("sub8", True), ("opt", False), ("pair", False)):
            prog = build_multi(shape, fname)
            # interpreted arithmetic under symbolic list lengths is slow (measured > 120 s): the interpreted variant fixes the
            # lengths (5, 3, 2), the uninterpreted ones cover every length at once
            ET = FNS[fname]()[1]
            wf = {"L1": (LIST(ET, 8 if shape not in ("same-bound-twice", "two-functions") else 4), 5 if shape not in ("same-bound-twice", "two-functions") else 1),
                  "L2": (LIST(ET, 4), 3), "L3": (LIST(ET, 4), 2)} if interpret else {}
            used = set(program_text(prog).split("witness::")[i].split(")")[0].split(",")[0].split(";")[0] for i in range(1, len(program_text(prog).split("witness::"))))
            wf = {n: t for n, t in wf.items() if n in used}
            out.append(E.Case("fold-multi-%s-%s-%s" % (shape, fname, "int" if interpret else "uf"), prog,
                              interpret=interpret, validate=interpret, wit_fixed=wf,
                              tags={"fn": fname, "N": 8, "source": "witness_any", "shape": shape, "seed": seed}))
    bounds = [2, 4, 8, 16, 32, 64, 128, 256] + ([512] if tier == "thorough" else [])

    def add(fname, N, source, k, interpret, mut=None, validate=None):
        prog, wf = build(fname, N, source, k)
        cid = "fold-%s-N%d-%s-k%s-%s%s" % (fname, N, source, "any" if k is None else k, "int" if interpret else "uf",
                                            "-canary-" + "+".join(sorted(mut)) if mut else "")
        if validate is None:
            validate = interpret and (k is None or k <= 40)
        out.append(E.Case(cid, prog, interpret=interpret, mut=mut, validate=validate, wit_fixed=wf,
                          tags={"fn": fname, "N": N, "source": source, "k": k, "mode": "interpreted" if interpret else "uninterpreted", "seed": seed}))

    for N in bounds:
        ks = list(range(N))
        for k in ks:
            # every length, literal list and witness list, arbitrary f (uninterpreted) ...
            add("uf8", N, "literal", k, False)
            add("uf8", N, "witness_len", k, False)
            # ... and a replayable order-sensitive f
            add("sub8", N, "literal", k, True)
            add("sub8", N, "witness_len", k, True)
        # other element types / panicking f on a spread of lengths (all lengths for small N)
        sel = ks if N <= 16 else sorted(set([0, 1, 2, 3, N // 2 - 1, N // 2, N // 2 + 1, N - 2, N - 1] + rng.sample(ks, 6)))
        for k in sel:
            for fname in ("panic", "pair", "opt", "arr3", "lin8"):
                if N > 64 and fname in ("arr3", "pair") and k > 70:
                    continue
                add(fname, N, "literal", k, True)
                add(fname, N, "witness_len", k, True)
                add(fname, N, "witness_len", k, False)
        # all lengths at once (symbolic block-presence bits; covers junk under absent blocks).
        # Interpreted arithmetic under symbolic control is hard for the SAT back end (measured: e-acc at N=8
        # > 30 s), so the all-lengths query quantifies over the jet meanings instead (uninterpreted mode).
        if N <= 8:
            for fname in ("uf8", "panic", "opt", "pair", "sub8", "lin8", "arr3"):
                add(fname, N, "witness_any", None, False)
            add("panic", N, "witness_any", None, True)
            add("opt", N, "witness_any", None, True)
        elif N == 16:
            # `pair` at N = 16 and `lin8` at N = 32 need 100-160 s of z3 time on an idle machine: thorough only
            for fname in ("uf8", "panic", "opt", "sub8", "lin8", "arr3") + (("pair",) if tier == "thorough" else ()):
                add(fname, N, "witness_any", None, False)
            add("panic", N, "witness_any", None, True)
        elif N == 32 or (N == 64 and tier == "thorough"):
            # measured: arbitrary f at N=32 6 s, N=64 27 s; the panicking f (interpreted) 0.7 s at N=32
            add("uf8", N, "witness_any", None, False)
            add("panic", N, "witness_any", None, False)
            add("panic", N, "witness_any", None, True)
            if N == 32 and tier == "thorough":
                add("lin8", N, "witness_any", None, False)
        if N <= 8:
            for k in range(1, N):
                if N <= 4 or k <= 3:
                    # lists merged from two match arms: interpreted arithmetic under symbolic control gets
                    # slow quickly (measured 180 s at N=8, k=6), so the larger ones quantify over f instead
                    add("sub8", N, "function", k, True)
                add("uf8", N, "function", k, False)
    # canaries: a deliberately wrong specification must be refuted by the solver
    add("uf8", 8, "witness_len", 6, False, mut={"fold_reverse_elems"})
    add("uf8", 8, "witness_len", 6, False, mut={"fold_reverse_blocks"})
    add("sub8", 16, "literal", 13, True, mut={"fold_reverse_blocks"})
    add("lin8", 4, "witness_any", None, False, mut={"fold_reverse_elems"})
    add("panic", 8, "witness_len", 3, True, mut={"fold_reverse_elems"})
    return out


def main():
    tier, seed = suite.tier_seed()
    cs = cases(tier, seed)
    return suite.run_property(
        "C08", cs, rejection_is_violation=True,
        technique="SMT (z3, QF_UFBV) equivalence of the symbolically executed emitted Simplicity DAG and a left-to-right source-level fold; fold functions uninterpreted",
        functions=["compile.rs: list_fold (next_f_array, next_f_fold), Call::compile (Fold), SingleExpression::compile (List)",
                   "array.rs: Partition::from_slice/fold, BTreeSlice::fold", "types.rs/value.rs: list layout as used for witness and literal lists",
                   "ast.rs: fold typing (accepts the generated programs)"],
        bounds={"list_bounds_N": "2..256 (quick), 2..512 (thorough)", "programs_with_several_folds": "7 shapes (one function at two bounds sequential / chained, same bound twice, folded function also called directly, fold inside a function and in main, two functions) x 4 fold functions, all list lengths at once", "lengths": "every k in 0..N-1 for f in {arbitrary (uninterpreted), e-acc}; "
                "spread of lengths for other element types", "symbolic_length_query": "N <= 32 in quick (arbitrary f and the panicking f), N <= 64 in thorough (N = 128 exceeded the 120 s cap)",
                "element_types": ["u8", "(u8,u8)", "Option<u8>", "[u8;3]"], "accumulators": ["u8", "u16", "Ctx8"]},
        outside=["N > 512", "element types other than listed", "jet arithmetic (C jets) - validated concretely only",
                 "satisfy/encode/decode of the library (exercised only by the concrete cross-validation runs)"],
        assumptions=["z3 4.8.12 is sound on QF_UFBV", "simplicity-lang type finalisation supplies the DAG's types",
                     "book-layout function and source evaluator (simsym/src.py) are the specification",
                     "interpreted jet models are validated only on the concrete cross-validation points"],
        min_validated=200 if tier == "quick" else 400,
    )
