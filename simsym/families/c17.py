"""C17 - names are opaque: renaming and layout never change meaning.

Lexical clause (E3, pegsmt/): for every identifier up to length L that is not exactly a reserved word, every
naming role of the real grammar file accepts it - one z3 query per role over the PEG encoding, models replayed
through the real parser.  Renaming clause (E1): programs of families F01 / F10 with ALL user-chosen names
replaced by boundary identifiers (reserved words extended by a letter / digit / underscore, case variants,
solver-style random names), with aliases introduced, right-hand sides parenthesised and comments / whitespace
inserted, are accepted and proved equivalent to the source semantics for all witnesses.
"""
import copy, random, re

from ..src import *
from .. import engine as E
from .. import suite
from . import c01, c10

BOUNDARY_NAMES = [
    "true_x", "truex", "true1", "falsey", "false_", "None_yet", "Nonexistent", "None9", "Some_", "Lefty", "Right_hand",
    "u8_pair", "u8x", "u16_", "u256_be", "u1a", "bool_flag", "boolean", "Either_way", "Optional", "Option_", "List_of", "Listing",
    "unwrap_foo", "unwrapper", "unwrap_leftover", "unwrap_left_", "unwrap_rightful", "for_while_", "for_whiles", "is_none_", "is_nonempty",
    "assert_ok", "asserted", "panic_", "panicky", "matches", "match_", "match_arm", "into_miles", "intox", "fold_", "folder", "dbg_", "dbgx",
    "Fee", "Fe_", "Fe2", "Gejx", "Ge_", "Geo", "Points", "Point_", "Heights", "Height_", "Timestamp", "Time_", "Time9", "Distances", "Durations",
    "Locked", "Lock_", "Outpoints", "Ctx8_", "Ctx80", "Pubkeys", "Message6", "Message64_", "Messages", "Signatures", "Scalars", "Nonces", "Nonce_",
    "Asset1_", "Asset12", "Amount1x", "TokenAmount1_", "ExplicitAssets", "ExplicitAmount_", "ExplicitNonce9", "Confidential1_",
    "fnord", "fn_", "fn1", "lettuce", "let_", "let1", "types", "type_", "mod_", "modulo", "const_", "constant", "witness_", "witnesses", "param_", "params",
    "jet_", "jets", "list_", "lists", "main_", "mains", "a", "Z", "x_", "x__y", "a1b2c3", "A_B_C", "zZ9_", "camelCaseName", "SCREAMING_SNAKE", "l0ng_identifier_with_many_parts_0123456789",
]


def collect_names(prog):
    names = {"var": set(), "fn": set(), "wit": set(), "param": set()}
    seen = set()

    def walk(x):
        if isinstance(x, (list, tuple)):
            for y in x:
                walk(y)
            return
        if not hasattr(x, "__dict__") or id(x) in seen:
            return
        seen.add(id(x))
        if isinstance(x, (Var, PVar)):
            names["var"].add(x.name)
        elif isinstance(x, Wit):
            names["wit"].add(x.name)
        elif isinstance(x, Param):
            names["param"].add(x.name)
        elif isinstance(x, FnDef):
            names["fn"].add(x.name)
            for n, t in x.params:
                names["var"].add(n)
        elif isinstance(x, Arm) and x.var:
            names["var"].add(x.var)
        for v in x.__dict__.values():
            if isinstance(v, (list, tuple)) or hasattr(v, "__dict__"):
                walk(v)

    walk(prog.fns)
    walk(prog.main)
    return names


def rename(prog, maps):
    prog = copy.deepcopy(prog)
    seen = set()

    def walk(x):
        if isinstance(x, (list, tuple)):
            for y in x:
                walk(y)
            return
        if not hasattr(x, "__dict__") or id(x) in seen:
            return
        seen.add(id(x))
        if isinstance(x, (Var, PVar)):
            x.name = maps["var"][x.name]
        elif isinstance(x, Wit):
            x.name = maps["wit"][x.name]
        elif isinstance(x, Param):
            x.name = maps["param"][x.name]
        elif isinstance(x, FnDef):
            x.name = maps["fn"][x.name]
            x.params = [(maps["var"][n], t) for n, t in x.params]
        elif isinstance(x, Arm) and x.var:
            x.var = maps["var"][x.var]
        for v in list(x.__dict__.values()):
            if isinstance(v, (list, tuple)) or hasattr(v, "__dict__"):
                walk(v)

    walk(prog.fns)
    walk(prog.main)
    return prog


def make_maps(names, rng):
    pool = list(BOUNDARY_NAMES)
    rng.shuffle(pool)
    maps = {}
    used = set()
    for kind in ("fn", "var", "wit", "param"):
        m = {}
        for n in sorted(names[kind]):
            while True:
                cand = pool.pop() if pool else "n%d_%s" % (len(used), rng.choice(["x", "Y", "_z"]))
                if cand not in used and cand != "main":
                    break
            used.add(cand)
            m[n] = cand
        maps[kind] = m
    return maps


def parenthesise(prog):
    prog = copy.deepcopy(prog)
    seen = set()

    def walk(x):
        if isinstance(x, (list, tuple)):
            for y in x:
                walk(y)
            return
        if not hasattr(x, "__dict__") or id(x) in seen:
            return
        seen.add(id(x))
        if isinstance(x, Let) and not isinstance(x.e, Paren):
            x.e = Paren(x.e)
        for v in list(x.__dict__.values()):
            if isinstance(v, (list, tuple)) or hasattr(v, "__dict__"):
                walk(v)

    walk(prog.fns)
    walk(prog.main)
    return prog


def relayout(text, rng):
    """comments and whitespace at token boundaries that every printed program has"""
    out = text.replace(";\n", " ; // trailing comment with keywords: let fn match true None u8\n")
    out = out.replace("{\n", "{ /* block\n comment */\n\t\r\n")
    out = out.replace(", ", " ,\n      ")
    out = out.replace(" = ", "\n  =\t")
    return "// leading comment\n" + out + "\n/* trailing */"


def relayout_dense(text):
    """whitespace / comments at every bracket and comma: `(x,)` becomes `( x ,\t\n )`, `f(a, b)` becomes `f( a , b\n )`"""
    out = text.replace("(", "( /* o */ ").replace(")", "\n )").replace(",", " ,\t")
    out = out.replace("{", "{ ").replace("}", " }").replace(";", " ;")
    return out


def layout_zoo():
    """small programs that contain every bracketed / comma-separated construct of the grammar at least once:
    1-tuples and empty tuples in expression, pattern and type position, nested parentheses, empty and
    non-empty arrays and lists, calls with 0 / 1 / 3 arguments, every call form with `::<..>` arguments,
    block and single-expression match arms"""
    from ..observe import observe, Fresh
    U8, U4 = U(8), U(4)
    out = []
    one = TUP(U8)
    out.append(("one-tuple", Program([], Block([
        Let("t", one, TupleE([Wit("X", U8)])),
        Let(PTuple([PVar("y")]), one, Var("t", one)),
        Let("n", TUP(one, ARR(U8, 2)), TupleE([TupleE([Var("y", U8)]), ArrayE([Var("y", U8), Lit(U8, 1)], U8)])),
        Let(PTuple([PTuple([PVar("z")]), PArray([PIgnore(), PVar("w")])]), TUP(one, ARR(U8, 2)), Var("n", TUP(one, ARR(U8, 2)))),
    ] + observe(TupleE([Var("z", U8), Var("w", U8)]), TUP(U8, U8), "E", Fresh("o"))))))
    out.append(("parens-and-empties", Program([], Block([
        Let("a", U8, Paren(Paren(Wit("X", U8)))),
        Let("u", UNIT, TupleE([])),
        Let("e", ARR(U8, 0), ArrayE([], U8)),
        Let("l", LIST(one, 4), ListE([TupleE([Var("a", U8)]), Paren(TupleE([Paren(Lit(U8, 7))]))], one, 4)),
        Let("k", LIST(U8, 2), ListE([], U8, 2)),
        Let("o", EITHER(UNIT, one), RightE(TupleE([Var("a", U8)]), UNIT)),
    ] + observe(Var("l", LIST(one, 4)), LIST(one, 4), "E1", Fresh("o")) + observe(Var("o", EITHER(UNIT, one)), EITHER(UNIT, one), "E2", Fresh("p"))))))
    f0 = FnDef("zero", [], U8, Block([], Lit(U8, 3)))
    f1 = FnDef("single", [("x", one)], U8, Block([Let(PTuple([PVar("v")]), one, Var("x", one))], Var("v", U8)))
    f3 = FnDef("three", [("a", U8), ("b", one), ("c", UNIT)], U8, Block([], JetCall("xor_8", [Var("a", U8), Call(f1, [Var("b", one)])], U8)))
    step = FnDef("step", [("e", one), ("acc", U8)], U8, Block([], JetCall("xor_8", [Call(f1, [Var("e", one)]), Var("acc", U8)], U8)))
    body = FnDef("body", [("acc", U8), ("ctx", one), ("i", U(1))], EITHER(one, U8), Block([], Match(
        JetCall("eq_8", [Var("acc", U8), Call(f1, [Var("ctx", one)])], BOOL),
        Arm("true", LeftE(TupleE([Var("acc", U8)]), U8)), Arm("false", RightE(JetCall("complement_8", [Var("acc", U8)], U8), one)))))
    out.append(("calls-and-generics", Program([f0, f1, f3, step, body], Block([
        Let("a", U8, Call(f3, [Call(f0, []), TupleE([Wit("X", U8)]), TupleE([])])),
        Let("b", U8, Fold(step, 4, ListE([TupleE([Var("a", U8)]), TupleE([Wit("Y", U8)])], one, 4), Call(f0, []))),
        Let("c", EITHER(one, U8), ForWhile(body, Var("b", U8), TupleE([Wit("Z", U8)]))),
        Let("d", U8, Cast(TupleE([Lit(U4, 1), Lit(U4, 2)]), U8)),
        Let("g", BOOL, IsNone(Wit("O", OPT(one)))),
        Let("h", one, UnwrapLeft(Var("c", EITHER(one, U8)))),
        Let("i", one, Unwrap(SomeE(Var("h", one)))),
        ExprStmt(Match(Var("g", BOOL), Arm("false", Block([ExprStmt(Assert(JetCall("some_8", [Var("d", U8)], BOOL)))])), Arm("true", TupleE([])))),
    ] + observe(Var("i", one), one, "E", Fresh("o"))))))
    return out


def staged_text(stages, main, style=0):
    """program text in which the set of type aliases changes between items: stages = [(alias definitions, [functions])],
    then `main`; an alias definition (name, type) is printed with the aliases in force before it (chains), a name that is
    defined again simply gets its new meaning from there on (the language lets a later definition win)"""
    env = {}
    out = []

    def printer():
        inv = {}
        for n, t in env.items():
            inv.setdefault(t, n)
        pr = Printer(None, style)
        pr.al = inv
        return pr

    for defs, fns in stages:
        for n, t in defs:
            env.pop(n, None)
            out.append("type %s = %s;" % (n, printer().ty(t)))
            env[n] = t
        pr = printer()
        for f in fns:
            ps = ", ".join("%s: %s" % (a, pr.ty(t)) for a, t in f.params)
            ret = "" if f.ret == UNIT else " -> %s" % pr.ty(f.ret)
            out.append("fn %s(%s)%s %s" % (f.name, ps, ret, pr.block(f.body, 0)))
    out.append("fn main() %s" % printer().block(main, 0))
    return "\n\n".join(out) + "\n"


def alias_zoo():
    """aliases in every type position, chains of aliases, and an alias name that is defined a second time with another
    meaning between two uses of the same composite annotation; the specification is the alias-free program"""
    from ..observe import observe, Fresh
    U8, U16, U4 = U(8), U(16), U(4)
    out = []
    P8, P16 = TUP(U8, U8), TUP(U16, U16)
    low = FnDef("low", [("p", P8)], U8, Block([Let(PTuple([PVar("a"), PVar("b")]), P8, Var("p", P8))], JetCall("xor_8", [Var("a", U8), Var("b", U8)], U8)))
    opt = FnDef("opt", [("o", OPT(U8))], U8, Block([], Match(Var("o", OPT(U8)), Arm("none", Lit(U8, 9)), Arm("some", Var("x", U8), "x", U8))))
    main = Block([
        Let("q", P16, TupleE([Wit("X", U16), Lit(U16, 300)])),
        Let(PTuple([PVar("c"), PVar("d")]), P16, Var("q", P16)),
        Let("r", U8, Call(low, [TupleE([Lit(U8, 1), Wit("Y", U8)])])),
        Let("m", OPT(U16), SomeE(Var("d", U16))),
        Let("s", U8, Call(opt, [Wit("O", OPT(U8))])),
    ] + observe(TupleE([Var("c", U16), Var("d", U16), Var("r", U8), Var("s", U8)]), TUP(U16, U16, U8, U8), "E", Fresh("o"))
      + observe(Var("m", OPT(U16)), OPT(U16), "E2", Fresh("p")))
    prog = Program([low, opt], main)
    out.append(("redefined-between-uses", prog, staged_text([([("Word", U8)], [low, opt]), ([("Word", U16)], [])], main)))
    out.append(("redefined-before-first-use", prog, staged_text([([("Word", U16), ("Word", U8)], [low, opt]), ([("Word", U16), ("Other", U8)], [])], main)))
    # chain: B and C are fixed when they are defined; redefining A afterwards must not change them
    B, C = TUP(U8, U8), OPT(TUP(U8, U8))
    f = FnDef("first", [("c", C)], U8, Block([], Match(Var("c", C), Arm("none", Lit(U8, 0)), Arm("some", Block([Let(PTuple([PVar("a"), PIgnore()]), B, Var("b", B))], Var("a", U8)), "b", B))))
    main2 = Block([
        Let("w", TUP(U16, B), TupleE([Wit("X", U16), TupleE([Wit("Y", U8), Lit(U8, 2)])])),
        Let(PTuple([PVar("x"), PVar("y")]), TUP(U16, B), Var("w", TUP(U16, B))),
        Let("z", U8, Call(f, [SomeE(Var("y", B))])),
        Let("l", LIST(U16, 4), ListE([Var("x", U16), Lit(U16, 4660)], U16, 4)),
        Let("arr", ARR(U16, 3), ArrayE([Var("x", U16), Var("x", U16), Lit(U16, 1)], U16)),
        Let("ei", EITHER(U16, B), LeftE(Var("x", U16), B)),
        Let("k", U16, Cast(TupleE([Var("z", U8), Lit(U8, 5)]), U16)),
        Let("ul", U16, UnwrapLeft(Var("ei", EITHER(U16, B)))),
    ] + observe(TupleE([Var("z", U8), Var("k", U16), Var("ul", U16)]), TUP(U8, U16, U16), "E", Fresh("o"))
      + observe(Var("l", LIST(U16, 4)), LIST(U16, 4), "E2", Fresh("p")) + observe(Var("arr", ARR(U16, 3)), ARR(U16, 3), "E3", Fresh("q")))
    prog2 = Program([f], main2)
    out.append(("chain-then-redefined", prog2, staged_text([([("A", U8), ("B", B), ("C", C)], [f]), ([("A", U16)], [])], main2)))
    out.append(("chain-every-position", prog2, staged_text([([("A", U8), ("B", B), ("C", C), ("W", U16), ("L", LIST(U16, 4)), ("Arr", ARR(U16, 3)), ("Ei", EITHER(U16, B))], [f])], main2)))
    return out


def cases(tier, seed):
    rng = random.Random(seed)
    base = [c for c in c01.cases("quick", seed) if not c.mut and not c.expect_reject]
    base += [c for c in c10.cases("quick", seed) if not c.mut and not c.expect_reject]
    rng.shuffle(base)
    base = base[: (220 if tier == "quick" else 1500)]
    out = []
    aliases = [("Fee", U(8)), ("Timestamp_t", U(16)), ("u8_pair", TUP(U(8), U(8))), ("Optional", OPT(U(8)))]
    for i, c in enumerate(base):
        names = collect_names(c.prog)
        maps = make_maps(names, random.Random(seed * 7919 + i))
        p2 = rename(c.prog, maps)
        variant = i % 5
        text = None
        tag = "renamed"
        if variant == 1:
            p2 = parenthesise(p2)
            tag = "renamed+parenthesised"
        elif variant == 2:
            p2 = Program(p2.fns, p2.main, aliases)
            tag = "renamed+aliases"
        elif variant == 3:
            text = relayout(program_text(p2), rng)
            tag = "renamed+comments/whitespace"
        elif variant == 4:
            text = relayout_dense(program_text(p2))
            tag = "renamed+whitespace at every bracket and comma"
        out.append(E.Case("rename-%d-%s" % (i, c.cid), p2, text=text, validate=(i % 3 == 0),
                          tags={"variant": tag, "from": c.cid, "seed": seed,
                                "names": sorted(set(list(maps["var"].values()) + list(maps["fn"].values())))[:8]}))
    # alias zoo (the names stay as written: the point is what the alias names mean where)
    for name, prog, text in alias_zoo():
        out.append(E.Case("aliaszoo-%s" % name, prog, text=text, validate=True, tags={"variant": "aliases: " + name, "seed": seed}))
    # the same with the two meanings swapped half-way on sampled programs that have functions
    swapped = 0
    for i, c in enumerate(base):
        if swapped >= (12 if tier == "quick" else 80) or not c.prog.fns:
            continue
        a1 = [("Fee", U(8)), ("Stamp", U(16)), ("Maybe", OPT(U(8)))]
        a2 = [("Fee", U(16)), ("Stamp", U(8)), ("Maybe", OPT(U(16)))]
        out.append(E.Case("aliasswap-%d-%s" % (i, c.cid), c.prog, text=staged_text([(a1, c.prog.fns), (a2, [])], c.prog.main), validate=False,
                          tags={"variant": "aliases: meanings swapped between the functions and main", "from": c.cid, "seed": seed}))
        swapped += 1
    # layout zoo: every bracketed construct, in all layouts (the renaming is applied too)
    for name, prog in layout_zoo():
        names = collect_names(prog)
        for v in range(5):
            maps = make_maps(names, random.Random(seed * 31 + v))
            p2 = rename(prog, maps)
            text = None
            if v == 1:
                p2 = parenthesise(p2)
            elif v == 3:
                text = relayout(program_text(p2), rng)
            elif v == 4:
                text = relayout_dense(program_text(p2))
            out.append(E.Case("zoo-%s-layout%d" % (name, v), p2, text=text, validate=True,
                              tags={"variant": ["renamed", "parenthesised", "renamed", "comments/whitespace", "whitespace at every bracket and comma"][v], "zoo": name, "seed": seed}))
    return out


def lexical(L):
    from pegsmt import check
    E.build_driver()
    return check.run(E.DRIVER_BIN, L=L)


def main():
    tier, seed = suite.tier_seed()
    L = 10 if tier == "quick" else 16
    report, n_rules = lexical(L)
    bad, inconclusive = [], []
    for r in report:
        if r["status"] in ("unknown", "too many classes") or r["depth_cap_hit"]:
            inconclusive.append(r)
        for x in r["rejected"]:
            if x["real_parser_accepts"]:
                inconclusive.append({"role": r["role"], "note": "solver model accepted by the real parser: the PEG encoding disagrees with pest", "identifier": x["identifier"]})
            else:
                bad.append({"kind": "lexical", "role": r["role"], "identifier": x["identifier"], "reserved_prefix": x["reserved_prefix"],
                            "next_char": x["next_char"], "text": x["program"], "spec_verdict": "accepted", "real": x["real_error"],
                            "detail": "identifier %r is not a reserved word but is rejected as %s" % (x["identifier"], r["role"])})
    cs = cases(tier, seed)

    def extra(results):
        return {"lexical": {"grammar_rules_read": n_rules, "identifier_length_bound": L, "roles": len(report),
                            "roles_unsat": sum(1 for r in report if r["status"] == "unsat"),
                            "solver_queries": sum(r["queries"] for r in report), "solver": "z3 %s (python API)" % __import__("z3").get_version_string(),
                            "time_s": round(sum(r["total_s"] for r in report), 1),
                            "per_role": [{k: r[k] for k in ("role", "rule", "context", "status", "queries", "alternatives_encoded", "total_s")} for r in report],
                            "reserved_words": len(__import__("pegsmt.check", fromlist=["RESERVED"]).RESERVED)},
                "boundary_identifiers_used": len(BOUNDARY_NAMES)}

    rc = suite.run_property(
        "C17", cs, pre_violations=bad, rejection_is_violation=True, level="model_checking",
        technique="(a) PEG matching of the real grammar file encoded as SMT constraints over a symbolic identifier (z3): per naming role, search for a non-reserved identifier the role rejects; models replayed through the real parser. (b) SMT-based translation validation of renamed / re-laid-out programs",
        functions=["minimal.pest: identifier, function_name, alias_name, witness_name, builtin_type, builtin_function, builtin_alias, *_keyword, none/true/false_expr, call_name, ty, pattern, match_pattern, statement, expression (read and encoded at check time)",
                   "parse.rs / ast.rs / str.rs: names as plain keys (through the renamed programs)"],
        bounds={"identifier_length": "<= %d characters over [A-Za-z0-9_] starting with a letter" % L, "roles": list(__import__("pegsmt.check", fromlist=["ROLES"]).ROLES),
                "renamed_programs": len(cs), "layout_variants": ["renamed", "parenthesised right-hand sides", "type aliases introduced", "comments, CR/LF/tab whitespace"]},
        outside=["identifiers longer than the bound", "acceptance of whole programs under renaming beyond the family", "non-ASCII text in comments"],
        assumptions=["z3 sound", "the PEG encoding (pegsmt/peg.py) follows pest's matching rules: ordered choice, greedy repetition, atomic rules, implicit whitespace - validated by replaying every model through pest",
                     "the reserved-word list of pegsmt/check.py (62 words) delimits the claim"],
        extra_coverage=extra, min_validated=30,
    )
    if inconclusive and rc == 0:
        import sys
        sys.stderr.write("INCONCLUSIVE lexical clause: %s\n" % str(inconclusive)[:600])
        return 2
    return rc
