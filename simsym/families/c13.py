"""C13 - jets are callable with the documented arity/order/result type; arguments reach the jet in written order.

For every jet of Elements::ALL (as listed by the real library at check time) a one-call program is
generated from the pinned signature table of the release (jet_signatures.jsonl); the jet under test is an *uninterpreted function*, so
the solver proves - for every meaning the jet could have - that the bits entering the jet are the
arguments in written order (documented product layout) and that the result is delivered unchanged.
"""
import json, os, subprocess

from ..src import *
from .. import engine as E
from .. import suite
from .. import jets as J
from ..observe import observe, Fresh

RESERVED = ("verify", "check_sig_verify")
CTX8 = TUP(LIST(U(8), 64), TUP(U(64), U(256)))


PINNED = os.path.join(os.path.dirname(os.path.dirname(os.path.abspath(__file__))), "jet_signatures.jsonl")


def pinned_signatures():
    """the documented signatures: the table of the pinned release (what docs.rs / the codegen tool print for it), committed with the
    framework.  Deliberately NOT re-read from jet.rs at check time: the calls are generated from this table, so a signature that is
    regrouped, reordered across types or re-typed in jet.rs makes documented calls stop compiling (reported with the real compiler's
    message).  Jets the library adds later are called with the library's own signature."""
    return {j["jet"]: j for j in (json.loads(l) for l in open(PINNED) if l.strip())}


def list_jets():
    out = subprocess.run([E.DRIVER_BIN, "jets"], capture_output=True, text=True)
    if out.returncode != 0:
        raise E.Broken("driver jets failed: " + out.stderr[-500:])
    live = [json.loads(l) for l in out.stdout.splitlines() if l.strip()]
    pinned = pinned_signatures()
    names = set(j["jet"] for j in live)
    merged = [dict(pinned[j["jet"]], live=j) if j["jet"] in pinned else dict(j, live=j) for j in live]
    # a documented jet that the library no longer lists is still called (and will be refused)
    merged += [dict(j, live=None) for n, j in sorted(pinned.items()) if n not in names]
    return merged


def build(j, variant):
    name = j["jet"]
    ptys = [parse_ty(t) for t in j["rparams"]]
    rty = parse_ty(j["rresult"])
    wits = [Wit("A%d" % i, t) for i, t in enumerate(ptys)]
    fns = []
    stmts = []
    if variant == "direct":
        call = JetCall(name, wits, rty)
    elif variant == "vars":
        args = []
        for i, (w, t) in enumerate(zip(wits, ptys)):
            stmts.append(Let("x%d" % i, t, w))
            a = Var("x%d" % i, t)
            # vary how the argument expression is written
            if i % 3 == 1:
                a = Block([], a)
            elif i % 3 == 2:
                a = Paren(a)
            args.append(a)
        call = JetCall(name, args, rty)
    elif variant == "function":
        params = [("p%d" % i, t) for i, t in enumerate(ptys)]
        f = FnDef("call_it", params, rty, Block([], JetCall(name, [Var(n, t) for n, t in params], rty)))
        fns.append(f)
        call = Call(f, wits)
    else:
        raise ValueError(variant)
    if rty == CTX8:
        # a SHA-256 context carries a List<u8, 64>: observing it block by block costs z3 50-120 s per jet;
        # observe it through the (uninterpreted) finalisation instead
        stmts.append(Let("r_ctx", rty, call))
        stmts.append(ExprStmt(Assert(JetCall("eq_256", [JetCall("sha_256_ctx_8_finalize", [Var("r_ctx", rty)], U(256)), Wit("EXP", U(256))], BOOL))))
    else:
        stmts += observe(call, rty, "EXP", Fresh("r"))
    return Program(fns, Block(stmts)), ptys, rty


def cases(tier, seed):
    out = []
    jets = list_jets()
    names = [j["jet"] for j in jets]
    for j in jets:
        name = j["jet"]
        if name in RESERVED:
            continue
        has_model = name in J.MODELS
        variants = ["direct", "vars"] + (["function"] if (tier == "thorough" or len(j["rparams"]) >= 2) else [])
        for variant in variants:
            prog, ptys, rty = build(j, variant)
            big = sum(width(t) for t in ptys) + width(rty) > 6000
            out.append(E.Case("jet-%s-%s-uf" % (name, variant), prog, interpret=frozenset([name]), validate=False,
                              tags={"jet": name, "variant": variant, "params": j["rparams"], "result": j["rresult"],
                                    "mode": "jet under test uninterpreted"}))
            if has_model and variant == "direct":
                out.append(E.Case("jet-%s-%s-int" % (name, variant), prog, interpret=True, validate=True, extra_points=(24 if tier == "quick" else 200),
                                  tags={"jet": name, "variant": variant, "mode": "interpreted (validated against the C jet)"}))
    # the same calls with the types WRITTEN the way the library's signature table prints them - with the builtin alias names
    # (Ctx8, Pubkey, Message64, Gej, Ge, Fe, Scalar, ...): every jet whose signature mentions an alias, arguments through variables
    for j in jets:
        name = j["jet"]
        if name in RESERVED or (j["params"] == j["rparams"] and j["result"] == j["rresult"]):
            continue
        prog, ptys, rty = build(j, "vars")
        text = program_text(prog)
        ok = True
        for i, t in enumerate(ptys):
            old_s, new_s = "let x%d: %s = witness::A%d;" % (i, ty_str(t), i), "let x%d: %s = witness::A%d;" % (i, j["params"][i], i)
            if old_s not in text:
                ok = False
            text = text.replace(old_s, new_s, 1)
        if j["result"] != j["rresult"]:
            probe = ": %s = jet::%s(" % (ty_str(rty), name)
            if probe in text:
                text = text.replace(probe, ": %s = jet::%s(" % (j["result"], name), 1)
        if not ok:
            raise RuntimeError("alias variant: the generated text of %s has an unexpected shape" % name)
        out.append(E.Case("jet-%s-alias-names-uf" % name, prog, text=text, interpret=frozenset([name]), validate=False,
                          tags={"jet": name, "variant": "types written with the library's alias names", "params": j["params"], "result": j["result"],
                                "mode": "jet under test uninterpreted"}))
    # reserved jets and unknown jets must be rejected
    out.append(E.Case("jet-reserved-verify", Program([], Block([ExprStmt(JetCall("verify", [Wit("A0", BOOL)], UNIT))])),
                      expect_reject=True, validate=False, debug_modes=(False,), tags={"kind": "reject"}))
    csv = [j for j in jets if j["jet"] == "check_sig_verify"]
    if csv:
        ptys = [parse_ty(t) for t in csv[0]["rparams"]]
        out.append(E.Case("jet-reserved-check_sig_verify",
                          Program([], Block([ExprStmt(JetCall("check_sig_verify", [Wit("A%d" % i, t) for i, t in enumerate(ptys)], UNIT))])),
                          expect_reject=True, validate=False, debug_modes=(False,), tags={"kind": "reject"}))
    out.append(E.Case("jet-unknown", Program([], Block([Let("x", U(8), JetCall("no_such_jet_8", [Wit("A0", U(8))], U(8)))])),
                      expect_reject=True, validate=False, debug_modes=(False,), tags={"kind": "reject"}))
    # arity: one argument too few / too many must be rejected
    for nm in ("add_8", "sha_256_ctx_8_add_1", "le_32"):
        j = [x for x in jets if x["jet"] == nm]
        if not j:
            continue
        ptys = [parse_ty(t) for t in j[0]["rparams"]]
        rty = parse_ty(j[0]["rresult"])
        few = Program([], Block([Let("x", rty, JetCall(nm, [Wit("A%d" % i, t) for i, t in enumerate(ptys[:-1])], rty))]))
        many = Program([], Block([Let("x", rty, JetCall(nm, [Wit("A%d" % i, t) for i, t in enumerate(ptys + [U(8)])], rty))]))
        out.append(E.Case("jet-%s-too-few" % nm, few, expect_reject=True, validate=False, debug_modes=(False,), tags={"kind": "reject"}))
        out.append(E.Case("jet-%s-too-many" % nm, many, expect_reject=True, validate=False, debug_modes=(False,), tags={"kind": "reject"}))
    # canaries: a specification that swaps the first two arguments must be refuted
    for nm in ("subtract_8", "lt_32", "divides_16", "max_64"):
        j = [x for x in jets if x["jet"] == nm]
        if j:
            prog, _, _ = build(j[0], "direct")
            out.append(E.Case("jet-%s-canary-swap" % nm, prog, interpret=frozenset([nm]), mut={"jet_swap_args"}, validate=False, tags={}))
    return out, len(names)


def main():
    tier, seed = suite.tier_seed()
    E.build_driver()
    cs, n_jets = cases(tier, seed)

    def extra(results):
        jets_done = set(r["tags"].get("jet") for r in results if r["status"] == "held" and r["tags"].get("jet"))
        live = {j["jet"]: j["live"] for j in list_jets()}
        pinned = pinned_signatures()
        changed = sorted(n for n, j in pinned.items() if live.get(n) is None or live[n]["rparams"] != j["rparams"] or live[n]["rresult"] != j["rresult"])
        return {"jets_in_Elements_ALL": n_jets, "jets_in_pinned_signature_table": len(pinned),
                "jets_whose_library_signature_differs_from_the_pinned_table": changed, "jets_with_all_obligations_discharged": len(jets_done), "exhaustive": True,
                "jets_with_interpreted_model_validated_against_C": len(set(r["tags"].get("jet") for r in results if r["cid"].endswith("-int") and r["validated"] > 0))}

    return suite.run_property(
        "C13", cs, rejection_is_violation=True,
        technique="SMT (z3, QF_UFBV): jet under test as an uninterpreted function on both sides; equivalence of emitted DAG and source-level call for all argument values and all jet meanings",
        functions=["compile.rs: Call::compile (Jet), SingleExpression::tuple / BTreeSlice::fold (argument tupling), with_debug_symbol",
                   "ast.rs: jet lookup, reserved jets, arity and result type check", "jet.rs: source_type/target_type (checked against the pinned signature table through the generated calls)"],
        bounds={"jets": "every jet of Elements::ALL as listed by the library at check time", "call_shapes": ["witness arguments", "arguments through variables/blocks/parentheses", "call inside a custom function", "types written with the builtin alias names of the signature table (every jet whose signature has one)"]},
        outside=["the documented signatures are the table of the pinned release (simsym/jet_signatures.jsonl): a change of jet.rs against it shows as documented calls that stop compiling (enumeration, replayed through the real compiler), not as a solver verdict",
                 "the arithmetic meaning of jets: bit-vector models exist for ~300 jets and are validated against the real C jets on the solver-chosen succeeding/failing points only"],
        assumptions=["z3 4.8.12 is sound on QF_UFBV", "the product layout of the argument tuple follows book/src/type_casting.md (simsym/src.py: to_bits)"],
        extra_coverage=extra, min_validated=200,
    )
