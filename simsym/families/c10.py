"""C10 - a variable denotes its nearest, most recent binding.

Programs are sequences of binding statements over the two names `a` and `b` (plain lets, tuple / array /
nested / ignore patterns, nested blocks, match arms that bind, calls of functions whose parameters are
named a/b).  Every value ever bound is a distinct witness, and after every statement every bound name is
compared with a fresh universally quantified witness (`assert!(eq_8(a, witness::Ek))`), so "which binding
does this use denote" is decided by the solver as an equality of bit-vectors for all values.
"""
import itertools, random

from ..src import *
from .. import engine as E
from .. import suite

U8 = U(8)


class Gen:
    def __init__(self):
        self.nw = 0
        self.ne = 0
        self.fns = {}

    def wit(self, ty):
        self.nw += 1
        return Wit("W%d" % self.nw, ty)

    def use(self, name):
        self.ne += 1
        return ExprStmt(Assert(JetCall("eq_8", [Var(name, U8), Wit("E%d" % self.ne, U8)], BOOL)))

    def uses(self, bound):
        return [self.use(n) for n in sorted(bound)]

    def fn(self, key):
        if key in self.fns:
            return self.fns[key]
        a, b = Var("a", U8), Var("b", U8)
        defs = {
            "first": FnDef("first", [("a", U8), ("b", U8)], U8, Block([], a)),
            "second": FnDef("second", [("a", U8), ("b", U8)], U8, Block([], b)),
            "swapped": FnDef("swapped", [("b", U8), ("a", U8)], U8, Block([], a)),
            "shadow": FnDef("shadow", [("a", U8), ("b", U8)], U8, Block([Let("a", U8, b), Let("b", U8, Lit(U8, 77))], a)),
            "inner": FnDef("inner", [("a", U8), ("b", U8)], U8, Block([ExprStmt(Block([Let("a", U8, b)])),
                                                                        Let("b", U8, Block([Let("b", U8, a)], Var("b", U8)))], b)),
            "one": FnDef("one", [("b", U8)], U8, Block([Let("a", U8, b)], a)),
        }
        self.fns[key] = defs[key]
        return defs[key]


# a pattern shape is a nested structure over leaf slots; leaves are filled with a, b or _
SHAPES = [
    ("x",),
    ("tuple", "x", "x"),
    ("tuple", "x", "x", "x"),
    ("array", "x", "x"),
    ("array", "x", "x", "x"),
    ("tuple", "x", ("tuple", "x", "x")),
    ("tuple", ("tuple", "x", "x"), "x"),
    ("tuple", "x", ("array", "x", "x")),
    ("tuple", ("tuple", "x",), "x"),
]


def n_leaves(shape):
    if shape == "x" or shape == ("x",):
        return 1
    return sum(n_leaves(s) for s in shape[1:])


def fill(shape, leaves):
    """returns (pattern, type) consuming names from the list `leaves`"""
    if shape == "x" or shape == ("x",):
        n = leaves.pop(0)
        return (PIgnore() if n == "_" else PVar(n)), U8
    kind = shape[0]
    subs = [fill(s, leaves) for s in shape[1:]]
    if kind == "tuple":
        return PTuple([p for p, _ in subs]), TUP(*[t for _, t in subs])
    return PArray([p for p, _ in subs]), ARR(U8, len(subs))


def leaf_assignments(k):
    for combo in itertools.product(["a", "b", "_"], repeat=k):
        if combo.count("a") > 1 or combo.count("b") > 1:
            continue
        if all(c == "_" for c in combo):
            continue
        yield list(combo)


def pattern_lets():
    out = []
    for shape in SHAPES:
        for combo in leaf_assignments(n_leaves(shape)):
            out.append((shape, tuple(combo)))
    return out


ALL_PATTERN_LETS = pattern_lets()

# statement alphabet: (kind, parameter)
SIMPLE = [("letpat", i) for i in range(len(ALL_PATTERN_LETS))]
OTHER = [("swap", None), ("copy", "a"), ("copy", "b"), ("block_unit", None), ("block_value", "a"), ("block_value", "b"),
         ("match_opt", "a"), ("match_opt", "b"), ("match_either_let", "a"), ("match_either_let", "b"),
         ("match_bool_block", None),
         ("call", "first"), ("call", "second"), ("call", "swapped"), ("call", "shadow"), ("call", "inner"), ("call", "one")]


def emit(g, item, bound, depth, inner_items):
    """returns (statements, new bound set) or None if the item is not applicable in this scope"""
    kind, par = item
    if kind == "letpat":
        shape, combo = ALL_PATTERN_LETS[par]
        pat, ty = fill(shape, list(combo))
        return [Let(pat, ty, g.wit(ty))], bound | {c for c in combo if c != "_"}
    if kind == "swap":
        if not {"a", "b"} <= bound:
            return None
        return [Let(PTuple([PVar("a"), PVar("b")]), TUP(U8, U8), TupleE([Var("b", U8), Var("a", U8)]))], bound
    if kind == "copy":
        other = "b" if par == "a" else "a"
        if other not in bound:
            return None
        return [Let(par, U8, Var(other, U8))], bound | {par}
    if kind in ("block_unit", "block_value"):
        if depth <= 0:
            return None
        stmts, b2 = emit_seq(g, inner_items, bound, depth - 1, [])
        if stmts is None:
            return None
        if kind == "block_unit":
            return [ExprStmt(Block(stmts))], bound
        res = sorted(b2)[0] if b2 else None
        if res is None:
            return None
        # the block's value is some bound name (prefer the one that is *not* being defined)
        cand = [n for n in sorted(b2) if n != par] or sorted(b2)
        return [Let(par, U8, Block(stmts, Var(cand[0], U8)))], bound | {par}
    if kind == "match_opt":
        if depth <= 0:
            return None
        arm_scope = bound | {par}
        inner, _ = emit_seq(g, inner_items, arm_scope, depth - 1, [])
        if inner is None:
            return None
        none_body = Block(g.uses(bound))
        some_body = Block(g.uses(arm_scope) + inner)
        m = Match(g.wit(OPT(U8)), Arm("none", none_body), Arm("some", some_body, par, U8))
        return [ExprStmt(m)], bound
    if kind == "match_either_let":
        other = "b" if par == "a" else "a"
        m = Match(g.wit(EITHER(U8, U8)), Arm("left", Var("a", U8), "a", U8), Arm("right", Var("b", U8), "b", U8))
        return [Let(par, U8, m)], bound | {par}
    if kind == "match_bool_block":
        if depth <= 0 or not bound:
            return None
        t_inner, _ = emit_seq(g, inner_items, bound, depth - 1, [])
        if t_inner is None:
            return None
        n = sorted(bound)[0]
        m = Match(g.wit(BOOL), Arm("false", Block([Let(n, U8, g.wit(U8))] + g.uses(bound))), Arm("true", Block(t_inner)))
        return [ExprStmt(m)], bound
    if kind == "call":
        f = g.fn(par)
        args = []
        for i, (pn, pt) in enumerate(f.params):
            # pass the *other* name where possible, to cross parameter and argument names
            want = "b" if pn == "a" else "a"
            if want in bound:
                args.append(Var(want, U8))
            elif pn in bound:
                args.append(Var(pn, U8))
            else:
                args.append(g.wit(U8))
        target = "a" if (len(args) + len(par)) % 2 == 0 else "b"
        return [Let(target, U8, Call(f, args))], bound | {target}
    raise ValueError(kind)


def emit_seq(g, items, bound, depth, inner_items):
    stmts = []
    for it in items:
        r = emit(g, it, bound, depth, inner_items)
        if r is None:
            return None, None
        s, bound = r
        stmts += s
        stmts += g.uses(bound)
    return stmts, bound


def program_from(items, inner_items, depth=2):
    g = Gen()
    stmts, bound = emit_seq(g, items, set(), depth, inner_items)
    if stmts is None:
        return None
    fns = list(g.fns.values())
    return Program(fns, Block(stmts))


def reject_cases():
    """programs the scoping rules make ill-formed: the front end must reject them"""
    W = lambda n: Wit(n, U8)
    use = lambda n, k: ExprStmt(Assert(JetCall("eq_8", [Var(n, U8), W("E%d" % k)], BOOL)))
    out = []
    # a binding of an inner block is gone when the block ends
    out.append(("block-binding-escapes", Program([], Block([ExprStmt(Block([Let("a", U8, W("W1"))])), use("a", 1)]))))
    # a match-arm binding is gone when the arm ends
    out.append(("arm-binding-escapes", Program([], Block([
        ExprStmt(Match(Wit("M", OPT(U8)), Arm("none", Block([])), Arm("some", Block([use("a", 1)]), "a", U8))), use("a", 2)]))))
    # the right-hand side of a let sees only earlier bindings
    out.append(("rhs-sees-own-binding", Program([], Block([Let("a", U8, Var("a", U8))]))))
    out.append(("rhs-sees-later-binding", Program([], Block([Let("a", U8, Var("b", U8)), Let("b", U8, W("W1"))]))))
    # a function body sees only its parameters
    f = FnDef("peek", [("a", U8)], U8, Block([], Var("b", U8)))
    out.append(("function-sees-caller-scope", Program([f], Block([Let("b", U8, W("W1")), Let("a", U8, Call(f, [Var("b", U8)])), use("a", 1)]))))
    # tuple pattern binds a name twice
    out.append(("pattern-binds-twice", Program([], Block([Let(PTuple([PVar("a"), PVar("a")]), TUP(U8, U8), Wit("W1", TUP(U8, U8)))]))))
    # two parameters with one name: the book gives them no meaning (a pattern binds each name once)
    d = FnDef("dup", [("a", U8), ("a", U8)], U8, Block([], Var("a", U8)))
    out.append(("duplicate-parameter-names", Program([d], Block([Let("a", U8, Call(d, [W("W1"), W("W2")])), use("a", 1)]))))
    return out


def cases(tier, seed):
    rng = random.Random(seed)
    out = []
    seen = set()

    def add(cid, prog, mut=None, **kw):
        text = program_text(prog)
        if text in seen and not mut:
            return
        seen.add(text)
        out.append(E.Case(cid, prog, mut=mut, tags=dict(kw, seed=seed)))

    alphabet = SIMPLE + OTHER
    # length 1 and 2: exhaustive over the whole alphabet (inner blocks get a fixed two-statement content)
    inner_default = [("letpat", 0), ("letpat", 12)]
    n = 0
    for it in alphabet:
        for inner in ([("letpat", 0)], [("letpat", 1)], [("letpat", 4), ("swap", None)], [("copy", "a")], [("call", "swapped")]):
            p = program_from([it], inner)
            if p is not None:
                add("scope-1-%s-%s-%d" % (it[0], it[1], n), p, length=1)
                n += 1
            if it[0] == "letpat" or it[0] in ("swap", "copy", "call", "match_either_let"):
                break
    pairs = list(itertools.product(alphabet, repeat=2))
    if tier == "quick":
        rng.shuffle(pairs)
        # all pairs of non-pattern statements, plus a seeded third of the pattern pairs
        pairs = [p for p in pairs if p[0][0] != "letpat" and p[1][0] != "letpat"] + \
                [p for p in pairs if (p[0][0] == "letpat" or p[1][0] == "letpat")][:1200]
    for i, (x, y) in enumerate(pairs):
        inner = rng.choice([[("letpat", 0)], [("letpat", 1)], [("letpat", 3), ("swap", None)], [("copy", "b")], [("letpat", 2), ("call", "first")]])
        p = program_from([x, y], inner)
        if p is not None:
            add("scope-2-%d" % i, p, length=2)
    # deeper random structures (depth 3, up to 4 statements per block)
    k = 400 if tier == "quick" else 6000
    for i in range(k):
        ln = rng.choice([3, 3, 4, 4])
        items = [rng.choice(alphabet if rng.random() < 0.5 else OTHER) for _ in range(ln)]
        inner = [rng.choice(alphabet if rng.random() < 0.4 else OTHER) for _ in range(rng.choice([1, 2, 2, 3]))]
        p = program_from(items, inner, depth=3)
        if p is not None:
            add("scope-deep-%d" % i, p, length=ln, depth=3)
    # ill-scoped programs must be rejected
    for name, prog in reject_cases():
        out.append(E.Case("scope-reject-" + name, prog, expect_reject=True, validate=False, debug_modes=(False,),
                          tags={"kind": "reject", "what": name}))
    # canaries: an evaluator that resolves names to the *outermost / oldest* binding must be refuted
    c1 = program_from([("letpat", 0), ("letpat", 0)], [])
    out.append(E.Case("scope-canary-oldest", c1, mut={"outer_binding"}, tags={}))
    c2 = program_from([("letpat", 0), ("block_unit", None)], [("letpat", 0)])
    out.append(E.Case("scope-canary-outer", c2, mut={"outer_binding"}, tags={}))
    return out


def classify(r):
    if r["cid"].startswith("scope-reject-"):
        return r["cid"][len("scope-reject-"):]
    return None


def main():
    tier, seed = suite.tier_seed()
    return suite.run_property(
        "C10", cases(tier, seed), classify=classify,
        technique="SMT (z3, QF_UFBV) equivalence of the emitted Simplicity DAG and an environment-stack source evaluator; every bound value is a distinct symbolic witness",
        functions=["compile.rs: Scope (push_scope/pop_scope/insert/get_input_pattern/get), compile_blk, Match::compile, Call::compile (Custom)",
                   "pattern.rs: BasePattern::from/get/translate", "named.rs: SelectorBuilder/PairBuilder", "ast.rs: typing-side scope stack (accept/reject of the generated programs)"],
        bounds={"names": ["a", "b"], "pattern_shapes": "all shapes with <= 3 leaves over {a,b,_} without repetition (%d lets)" % len(ALL_PATTERN_LETS),
                "statement_alphabet": len(SIMPLE) + len(OTHER), "sequences": "length 1 and 2 exhaustive in thorough (seeded subset of pattern pairs in quick), seeded random length 3-4 with nesting depth <= 3",
                "ill_scoped_programs_that_must_be_rejected": 7},
        outside=["more than two names", "nesting deeper than 3", "values other than u8 leaves"],
        assumptions=["z3 4.8.12 is sound on QF_UFBV", "source evaluator (simsym/src.py: block/bind/lookup/match/call_fn) is the specification"],
        min_validated=200,
    )
