"""C10 - a variable denotes its nearest, most recent binding.

Programs are sequences of binding statements over the two names `a` and `b` (plain lets, tuple / array /
nested / ignore patterns, nested blocks, match arms that bind, calls of functions whose parameters are
named a/b).  Every value ever bound is a distinct witness, and after every statement every bound name is
compared with a fresh universally quantified witness (`assert!(eq_8(a, witness::Ek))`), so "which binding
does this use denote" is decided by the solver as an equality of bit-vectors for all values.
"""
import itertools, random

from ..src import *
from .. import engine as E
from .. import suite

U8 = U(8)


U16 = U(16)


class Gen:
    def __init__(self, mixed=None):
        """mixed: None -> every leaf is u8; otherwise a random.Random that picks u8 / u16 per binding, so that
        an outer and an inner binding of one name can differ in type (the typing-side scope stack then matters)"""
        self.nw = 0
        self.ne = 0
        self.fns = {}
        self.mixed = mixed

    def leaf(self):
        if self.mixed is None:
            return U8
        return self.mixed.choice([U8, U16, U8, U16, U(32)])

    def wit(self, ty):
        self.nw += 1
        return Wit("W%d" % self.nw, ty)

    def use(self, name, ty=U8):
        self.ne += 1
        return ExprStmt(Assert(JetCall("eq_%d" % ty[1], [Var(name, ty), Wit("E%d" % self.ne, ty)], BOOL)))

    def uses(self, bound):
        return [self.use(n, bound[n]) for n in sorted(bound)]

    def fn(self, key):
        if key in self.fns:
            return self.fns[key]
        a, b = Var("a", U8), Var("b", U8)
        defs = {
            "first": FnDef("first", [("a", U8), ("b", U8)], U8, Block([], a)),
            "second": FnDef("second", [("a", U8), ("b", U8)], U8, Block([], b)),
            "swapped": FnDef("swapped", [("b", U8), ("a", U8)], U8, Block([], a)),
            "shadow": FnDef("shadow", [("a", U8), ("b", U8)], U8, Block([Let("a", U8, b), Let("b", U8, Lit(U8, 77))], a)),
            "inner": FnDef("inner", [("a", U8), ("b", U8)], U8, Block([ExprStmt(Block([Let("a", U8, b)])),
                                                                        Let("b", U8, Block([Let("b", U8, a)], Var("b", U8)))], b)),
            "one": FnDef("one", [("b", U8)], U8, Block([Let("a", U8, b)], a)),
            "fsub": FnDef("fsub", [("e", U8), ("acc", U8)], U8, Block([Let(PTuple([PIgnore(), PVar("d")]), TUP(BOOL, U8),
                                                                           JetCall("subtract_8", [Var("e", U8), Var("acc", U8)], TUP(BOOL, U8)))], Var("d", U8))),
            # function scopes of every arity whose body re-binds a parameter (values derived with a jet:
            # witnesses are not allowed outside main)
            "rebind1": FnDef("rebind1", [("a", U8)], U8, Block([Let("a", U8, JetCall("complement_8", [a], U8))], a)),
            "rebind1_then": FnDef("rebind1_then", [("b", U8)], U8, Block([Let("b", U8, JetCall("complement_8", [b], U8)), Let("a", U8, b)], a)),
            "rebind1_tuple": FnDef("rebind1_tuple", [("a", U8)], U8, Block([
                Let(PTuple([PVar("a"), PVar("b")]), TUP(U8, U8), TupleE([JetCall("complement_8", [a], U8), a]))],
                JetCall("xor_8", [a, JetCall("left_pad_low_1_8", [JetCall("leftmost_8_1", [b], U(1))], U8)], U8))),
            "rebind1_arm": FnDef("rebind1_arm", [("a", U8)], U8, Block([], Match(
                JetCall("is_zero_8", [a], BOOL), Arm("true", a),
                Arm("false", Block([Let("a", U8, JetCall("complement_8", [a], U8))], a))))),
            "rebind1_opt": FnDef("rebind1_opt", [("a", OPT(U8))], U8, Block([], Match(
                Var("a", OPT(U8)), Arm("none", Lit(U8, 9)), Arm("some", JetCall("complement_8", [a], U8), "a", U8)))),
            "rebind0": FnDef("rebind0", [], U8, Block([Let("a", U8, Lit(U8, 5)), Let("a", U8, JetCall("complement_8", [a], U8))], a)),
            "rebind3": FnDef("rebind3", [("a", U8), ("b", U8), ("c", U8)], U8, Block([
                Let("c", U8, a), Let("a", U8, b), Let("b", U8, Var("c", U8))],
                Block([Let(PTuple([PIgnore(), PVar("d")]), TUP(BOOL, U8), JetCall("subtract_8", [a, b], TUP(BOOL, U8)))], Var("d", U8)))),
        }
        self.fns[key] = defs[key]
        return defs[key]


# a pattern shape is a nested structure over leaf slots; leaves are filled with a, b or _
SHAPES = [
    ("x",),
    ("tuple", "x", "x"),
    ("tuple", "x", "x", "x"),
    ("array", "x", "x"),
    ("array", "x", "x", "x"),
    ("tuple", "x", ("tuple", "x", "x")),
    ("tuple", ("tuple", "x", "x"), "x"),
    ("tuple", "x", ("array", "x", "x")),
    ("tuple", ("tuple", "x",), "x"),
]


def n_leaves(shape):
    if shape == "x" or shape == ("x",):
        return 1
    return sum(n_leaves(s) for s in shape[1:])


def fill(shape, leaves, leaf=U8):
    """returns (pattern, type) consuming names from the list `leaves`"""
    if shape == "x" or shape == ("x",):
        n = leaves.pop(0)
        return (PIgnore() if n == "_" else PVar(n)), leaf
    kind = shape[0]
    subs = [fill(s, leaves, leaf) for s in shape[1:]]
    if kind == "tuple":
        return PTuple([p for p, _ in subs]), TUP(*[t for _, t in subs])
    return PArray([p for p, _ in subs]), ARR(leaf, len(subs))


def leaf_assignments(k):
    for combo in itertools.product(["a", "b", "_"], repeat=k):
        if combo.count("a") > 1 or combo.count("b") > 1:
            continue
        if all(c == "_" for c in combo):
            continue
        yield list(combo)


def pattern_lets():
    out = []
    for shape in SHAPES:
        for combo in leaf_assignments(n_leaves(shape)):
            out.append((shape, tuple(combo)))
    return out


ALL_PATTERN_LETS = pattern_lets()

# statement alphabet: (kind, parameter)
SIMPLE = [("letpat", i) for i in range(len(ALL_PATTERN_LETS))]
OTHER = [("swap", None), ("swap_arr", None), ("copy", "a"), ("copy", "b"), ("block_unit", None), ("block_value", "a"), ("block_value", "b"),
         ("match_opt", "a"), ("match_opt", "b"), ("match_either_let", "a"), ("match_either_let", "b"),
         ("match_bool_block", None),
         ("call", "first"), ("call", "second"), ("call", "swapped"), ("call", "shadow"), ("call", "inner"), ("call", "one"),
         ("call", "rebind1"), ("call", "rebind1_then"), ("call", "rebind1_tuple"), ("call", "rebind1_arm"), ("call", "rebind1_opt"),
         ("call", "rebind0"), ("call", "rebind3"),
         # one name used twice in one call / one list literal of plain variables (after S41 / S46)
         ("dup_jet", "a"), ("dup_jet", "b"), ("dup_call", "a"), ("dup_call", "b"), ("list_vars", None), ("list_vars_rev", None)]


def emit(g, item, bound, depth, inner_items):
    """bound: dict name -> type.  returns (statements, new bound dict) or None if the item is not applicable"""
    kind, par = item
    if kind == "letpat":
        shape, combo = ALL_PATTERN_LETS[par]
        leaf = g.leaf()
        pat, ty = fill(shape, list(combo), leaf)
        nb = dict(bound)
        nb.update({c: leaf for c in combo if c != "_"})
        return [Let(pat, ty, g.wit(ty))], nb
    if kind == "swap":
        if not {"a", "b"} <= set(bound):
            return None
        ta, tb = bound["a"], bound["b"]
        nb = dict(bound, a=tb, b=ta)
        return [Let(PTuple([PVar("a"), PVar("b")]), TUP(tb, ta), TupleE([Var("b", tb), Var("a", ta)]))], nb
    if kind == "swap_arr":
        # an array (not a tuple) of plain variables, both possibly shadowed earlier
        if not {"a", "b"} <= set(bound) or bound["a"] != bound["b"]:
            return None
        t = bound["a"]
        return [Let(PArray([PVar("a"), PVar("b")]), ARR(t, 2), ArrayE([Var("b", t), Var("a", t)], t))], bound
    if kind == "copy":
        other = "b" if par == "a" else "a"
        if other not in bound:
            return None
        return [Let(par, bound[other], Var(other, bound[other]))], dict(bound, **{par: bound[other]})
    if kind in ("block_unit", "block_value"):
        if depth <= 0:
            return None
        stmts, b2 = emit_seq(g, inner_items, bound, depth - 1, [])
        if stmts is None:
            return None
        if kind == "block_unit":
            return [ExprStmt(Block(stmts))], bound
        if not b2:
            return None
        # the block's value is some bound name (prefer the one that is *not* being defined)
        cand = [n for n in sorted(b2) if n != par] or sorted(b2)
        t = b2[cand[0]]
        return [Let(par, t, Block(stmts, Var(cand[0], t)))], dict(bound, **{par: t})
    if kind == "match_opt":
        if depth <= 0:
            return None
        leaf = g.leaf()
        arm_scope = dict(bound, **{par: leaf})
        inner, _ = emit_seq(g, inner_items, arm_scope, depth - 1, [])
        if inner is None:
            return None
        none_body = Block(g.uses(bound))
        some_body = Block(g.uses(arm_scope) + inner)
        m = Match(g.wit(OPT(leaf)), Arm("none", none_body), Arm("some", some_body, par, leaf))
        return [ExprStmt(m)], bound
    if kind == "match_either_let":
        m = Match(g.wit(EITHER(U8, U8)), Arm("left", Var("a", U8), "a", U8), Arm("right", Var("b", U8), "b", U8))
        return [Let(par, U8, m)], dict(bound, **{par: U8})
    if kind == "match_bool_block":
        if depth <= 0 or not bound:
            return None
        t_inner, _ = emit_seq(g, inner_items, bound, depth - 1, [])
        if t_inner is None:
            return None
        n = sorted(bound)[0]
        leaf = g.leaf()
        inner_scope = dict(bound, **{n: leaf})
        m = Match(g.wit(BOOL), Arm("false", Block([Let(n, leaf, g.wit(leaf))] + g.uses(inner_scope))), Arm("true", Block(t_inner)))
        return [ExprStmt(m)], bound
    if kind == "dup_jet":
        # the same plain variable in both argument positions of an order-sensitive jet
        if par not in bound:
            return None
        t = bound[par]
        g.nd = getattr(g, "nd", 0) + 1
        d = "d%d" % g.nd
        return [Let(PTuple([PIgnore(), PVar(d)]), TUP(BOOL, t), JetCall("subtract_%d" % t[1], [Var(par, t), Var(par, t)], TUP(BOOL, t))), g.use(d, t)], bound
    if kind == "dup_call":
        if bound.get(par) != U8:
            return None
        other = "b" if par == "a" else "a"
        return [Let(other, U8, Call(g.fn("second"), [Var(par, U8), Var(par, U8)]))], dict(bound, **{other: U8})
    if kind in ("list_vars", "list_vars_rev"):
        # a list literal whose first block consists of plain variables, folded with an order-sensitive function
        if not {"a", "b"} <= set(bound) or bound["a"] != U8 or bound["b"] != U8:
            return None
        g.nd = getattr(g, "nd", 0) + 1
        d = "r%d" % g.nd
        names = ["a", "b"] if kind == "list_vars" else ["b", "a"]
        lst = ListE([Var(n, U8) for n in names], U8, 4)
        return [Let(d, U8, Fold(g.fn("fsub"), 4, lst, Lit(U8, 1))), g.use(d, U8)], bound
    if kind == "call":
        f = g.fn(par)
        args = []
        for i, (pn, pt) in enumerate(f.params):
            # pass the *other* name where possible, to cross parameter and argument names
            want = "b" if pn == "a" else "a"
            if bound.get(want) == pt:
                args.append(Var(want, pt))
            elif bound.get(pn) == pt:
                args.append(Var(pn, pt))
            else:
                args.append(g.wit(pt))
        target = "a" if (len(args) + len(par)) % 2 == 0 else "b"
        return [Let(target, U8, Call(f, args))], dict(bound, **{target: U8})
    raise ValueError(kind)


def emit_seq(g, items, bound, depth, inner_items):
    stmts = []
    for it in items:
        r = emit(g, it, bound, depth, inner_items)
        if r is None:
            return None, None
        s, bound = r
        stmts += s
        stmts += g.uses(bound)
    return stmts, bound


def program_from(items, inner_items, depth=2, mixed=None):
    g = Gen(mixed)
    stmts, bound = emit_seq(g, items, {}, depth, inner_items)
    if stmts is None:
        return None
    fns = list(g.fns.values())
    return Program(fns, Block(stmts))


def reject_cases():
    """programs the scoping rules make ill-formed: the front end must reject them"""
    W = lambda n: Wit(n, U8)
    use = lambda n, k: ExprStmt(Assert(JetCall("eq_8", [Var(n, U8), W("E%d" % k)], BOOL)))
    out = []
    # a binding of an inner block is gone when the block ends
    out.append(("block-binding-escapes", Program([], Block([ExprStmt(Block([Let("a", U8, W("W1"))])), use("a", 1)]))))
    # a match-arm binding is gone when the arm ends
    out.append(("arm-binding-escapes", Program([], Block([
        ExprStmt(Match(Wit("M", OPT(U8)), Arm("none", Block([])), Arm("some", Block([use("a", 1)]), "a", U8))), use("a", 2)]))))
    # the right-hand side of a let sees only earlier bindings
    out.append(("rhs-sees-own-binding", Program([], Block([Let("a", U8, Var("a", U8))]))))
    out.append(("rhs-sees-later-binding", Program([], Block([Let("a", U8, Var("b", U8)), Let("b", U8, W("W1"))]))))
    # a function body sees only its parameters
    f = FnDef("peek", [("a", U8)], U8, Block([], Var("b", U8)))
    out.append(("function-sees-caller-scope", Program([f], Block([Let("b", U8, W("W1")), Let("a", U8, Call(f, [Var("b", U8)])), use("a", 1)]))))
    # tuple pattern binds a name twice
    out.append(("pattern-binds-twice", Program([], Block([Let(PTuple([PVar("a"), PVar("a")]), TUP(U8, U8), Wit("W1", TUP(U8, U8)))]))))
    # two parameters with one name: the book gives them no meaning (a pattern binds each name once)
    d = FnDef("dup", [("a", U8), ("a", U8)], U8, Block([], Var("a", U8)))
    out.append(("duplicate-parameter-names", Program([d], Block([Let("a", U8, Call(d, [W("W1"), W("W2")])), use("a", 1)]))))
    return out


def cases(tier, seed):
    rng = random.Random(seed)
    out = []
    seen = set()

    def add(cid, prog, mut=None, **kw):
        text = program_text(prog)
        if text in seen and not mut:
            return
        seen.add(text)
        out.append(E.Case(cid, prog, mut=mut, tags=dict(kw, seed=seed)))

    alphabet = SIMPLE + OTHER
    # length 1 and 2: exhaustive over the whole alphabet (inner blocks get a fixed two-statement content)
    inner_default = [("letpat", 0), ("letpat", 12)]
    n = 0
    for it in alphabet:
        for inner in ([("letpat", 0)], [("letpat", 1)], [("letpat", 4), ("swap", None)], [("copy", "a")], [("call", "swapped")]):
            p = program_from([it], inner)
            if p is not None:
                add("scope-1-%s-%s-%d" % (it[0], it[1], n), p, length=1)
                n += 1
            if it[0] == "letpat" or it[0] in ("swap", "copy", "call", "match_either_let"):
                break
    pairs = list(itertools.product(alphabet, repeat=2))
    if tier == "quick":
        rng.shuffle(pairs)
        # all pairs of non-pattern statements, plus a seeded third of the pattern pairs
        pairs = [p for p in pairs if p[0][0] != "letpat" and p[1][0] != "letpat"] + \
                [p for p in pairs if (p[0][0] == "letpat" or p[1][0] == "letpat")][:1200]
    for i, (x, y) in enumerate(pairs):
        inner = rng.choice([[("letpat", 0)], [("letpat", 1)], [("letpat", 3), ("swap", None)], [("copy", "b")], [("letpat", 2), ("call", "first")]])
        p = program_from([x, y], inner)
        if p is not None:
            add("scope-2-%d" % i, p, length=2)
    # deeper random structures (depth 3, up to 4 statements per block)
    k = 400 if tier == "quick" else 6000
    for i in range(k):
        ln = rng.choice([3, 3, 4, 4])
        items = [rng.choice(alphabet if rng.random() < 0.5 else OTHER) for _ in range(ln)]
        inner = [rng.choice(alphabet if rng.random() < 0.4 else OTHER) for _ in range(rng.choice([1, 2, 2, 3]))]
        p = program_from(items, inner, depth=3)
        if p is not None:
            add("scope-deep-%d" % i, p, length=ln, depth=3)
    # bindings of one name at different types on different levels: the typing-side scope stack must agree
    # with the code-generation-side one (an outer `a: u16`, an inner `a: u8`, a use two levels further in)
    k = 500 if tier == "quick" else 5000
    for i in range(k):
        r2 = random.Random(seed * 104729 + i)
        ln = r2.choice([2, 3, 3, 4])
        items = [r2.choice(alphabet if r2.random() < 0.45 else OTHER) for _ in range(ln)]
        inner = [r2.choice(alphabet if r2.random() < 0.5 else OTHER) for _ in range(r2.choice([1, 2, 2, 3]))]
        p = program_from(items, inner, depth=3, mixed=r2)
        if p is not None:
            add("scope-typed-%d" % i, p, length=ln, depth=3, leaves="u8/u16/u32 mixed")
    # hand-written three-level shadowing at different types (the shape that separates the two scope stacks)
    for j, (t_outer, t_inner) in enumerate([(U16, U8), (U8, U16), (U(32), U8)]):
        gg = Gen()
        deep = Block([ExprStmt(Block(gg.uses({"a": t_inner})))] + gg.uses({"a": t_inner}))
        body = [Let("a", t_outer, gg.wit(t_outer))] + gg.uses({"a": t_outer}) + [
            ExprStmt(Block([Let("a", t_inner, gg.wit(t_inner)), ExprStmt(deep),
                            ExprStmt(Match(gg.wit(BOOL), Arm("false", Block(gg.uses({"a": t_inner}))), Arm("true", Block([]))))]))] + gg.uses({"a": t_outer})
        add("scope-three-levels-%d" % j, Program([], Block(body)), length=3, depth=3)
        f = FnDef("rebind_typed", [("a", t_outer)], t_inner, Block([Let("a", t_inner,
                  (JetCall("leftmost_16_8", [Var("a", U16)], U8) if (t_outer, t_inner) == (U16, U8) else
                   JetCall("left_pad_low_8_16", [Var("a", U8)], U16) if (t_outer, t_inner) == (U8, U16) else
                   JetCall("leftmost_32_8", [Var("a", U(32))], U8)))],
                  Match(JetCall("is_zero_%d" % t_inner[1], [Var("a", t_inner)], BOOL), Arm("true", Var("a", t_inner)), Arm("false", Block([], Var("a", t_inner))))))
        g2 = Gen()
        add("scope-fn-rebind-typed-%d" % j, Program([f], Block([Let("b", t_inner, Call(f, [g2.wit(t_outer)]))] + g2.uses({"b": t_inner}))), length=1, depth=2)
    # ill-scoped programs must be rejected
    for name, prog in reject_cases():
        out.append(E.Case("scope-reject-" + name, prog, expect_reject=True, validate=False, debug_modes=(False,),
                          tags={"kind": "reject", "what": name}))
    # canaries: an evaluator that resolves names to the *outermost / oldest* binding must be refuted
    c1 = program_from([("letpat", 0), ("letpat", 0)], [])
    out.append(E.Case("scope-canary-oldest", c1, mut={"outer_binding"}, tags={}))
    c2 = program_from([("letpat", 0), ("block_unit", None)], [("letpat", 0)])
    out.append(E.Case("scope-canary-outer", c2, mut={"outer_binding"}, tags={}))
    return out


def classify(r):
    if r["cid"].startswith("scope-reject-"):
        return r["cid"][len("scope-reject-"):]
    return None


def main():
    tier, seed = suite.tier_seed()
    return suite.run_property(
        "C10", cases(tier, seed), classify=classify, rejection_is_violation=True,
        technique="SMT (z3, QF_UFBV) equivalence of the emitted Simplicity DAG and an environment-stack source evaluator; every bound value is a distinct symbolic witness",
        functions=["compile.rs: Scope (push_scope/pop_scope/insert/get_input_pattern/get), compile_blk, Match::compile, Call::compile (Custom)",
                   "pattern.rs: BasePattern::from/get/translate", "named.rs: SelectorBuilder/PairBuilder", "ast.rs: typing-side scope stack (accept/reject of the generated programs)"],
        bounds={"names": ["a", "b"], "pattern_shapes": "all shapes with <= 3 leaves over {a,b,_} without repetition (%d lets)" % len(ALL_PATTERN_LETS),
                "statement_alphabet": len(SIMPLE) + len(OTHER), "sequences": "length 1 and 2 exhaustive in thorough (seeded subset of pattern pairs in quick), seeded random length 3-4 with nesting depth <= 3",
                "ill_scoped_programs_that_must_be_rejected": 7},
        outside=["more than two names", "nesting deeper than 3", "values other than u8 leaves"],
        assumptions=["z3 4.8.12 is sound on QF_UFBV", "source evaluator (simsym/src.py: block/bind/lookup/match/call_fn) is the specification"],
        min_validated=200,
    )
