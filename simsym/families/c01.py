"""C01 - the compiled program behaves as the source semantics prescribe.

Family F01: (a) a coverage matrix  expression form x result type x syntactic context, enumerated
exhaustively; (b) seeded random compositions of the same forms (depth-bounded).  Every computed value is
made observable by comparing it with a universally quantified witness (observe.py), so the solver query
`fails_compiled XOR fails_source` over all witness bits also decides value equality.
"""
import random

from ..src import *
from .. import engine as E
from .. import suite
from ..observe import observe, assert_eq, Fresh

INT_WIDTHS = (1, 2, 4, 8, 16, 32, 64)


def base_types():
    ts = [U(n) for n in INT_WIDTHS] + [BOOL, UNIT]
    return ts


def types_depth1():
    b = [U(8), U(1), U(16), BOOL, UNIT]
    out = []
    out += [TUP(U(8)), TUP(U(8), U(16)), TUP(BOOL, U(8), U(4)), TUP(U(8), U(8), U(8), U(8)), TUP(U(1), U(2), U(4), U(8), U(16))]
    out += [ARR(U(8), n) for n in (0, 1, 2, 3, 4, 5, 7, 8, 9)] + [ARR(BOOL, 3), ARR(U(4), 2)]
    out += [OPT(U(8)), OPT(BOOL), OPT(UNIT), OPT(U(32))]
    out += [EITHER(U(8), U(16)), EITHER(U(16), U(8)), EITHER(UNIT, U(8)), EITHER(BOOL, BOOL), EITHER(U(8), U(8))]
    out += [LIST(U(8), 2), LIST(U(8), 4), LIST(U(8), 8), LIST(BOOL, 4)]
    return out


def types_depth2():
    return [TUP(OPT(U(8)), EITHER(U(4), U(8))), OPT(TUP(U(8), U(16))), OPT(OPT(U(8))), EITHER(OPT(U(8)), TUP(U(8), BOOL)),
            ARR(TUP(U(8), BOOL), 3), ARR(OPT(U(4)), 2), LIST(TUP(U(8), U(8)), 4), LIST(OPT(U(8)), 2), TUP(ARR(U(8), 3), LIST(U(8), 4)),
            EITHER(ARR(U(8), 2), LIST(U(8), 2)), OPT(EITHER(U(8), UNIT)), TUP(TUP(U(8), U(8)), TUP(U(16),)), OPT(ARR(U(8), 5)),
            TUP(UNIT, U(8), UNIT), ARR(UNIT, 3), EITHER(EITHER(U(8), U(16)), U(32))]


def types_depth3():
    return [OPT(TUP(OPT(U(8)), EITHER(U(4), U(8)))), ARR(OPT(TUP(U(8), BOOL)), 2), LIST(EITHER(OPT(U(8)), U(8)), 4),
            TUP(OPT(OPT(OPT(U(1)))), ARR(ARR(U(2), 2), 2)), EITHER(LIST(OPT(U(8)), 2), OPT(LIST(U(8), 2)))]


class G:
    """program under construction"""

    def __init__(self, rng):
        self.rng = rng
        self.nw = 0
        self.nf = 0
        self.nv = 0
        self.fns = []
        self.fresh = Fresh("o")

    def wit(self, ty):
        self.nw += 1
        return Wit("W%d" % self.nw, ty)

    def var_name(self):
        self.nv += 1
        return "v%d" % self.nv

    def fn_name(self, stem):
        self.nf += 1
        return "%s_%d" % (stem, self.nf)

    def add_fn(self, f):
        self.fns.append(f)
        return f

    # ---- constants ------------------------------------------------------------------
    def literal(self, ty):
        k = ty[0]
        r = self.rng
        if k == "u":
            n = ty[1]
            v = r.choice([0, 1, (1 << n) - 1, r.getrandbits(n), r.getrandbits(n)]) & ((1 << n) - 1)
            fmts = ["dec", "bin"] + (["hex"] if n >= 8 else [])
            return Lit(ty, v, r.choice(fmts))
        if k == "bool":
            return BoolLit(r.random() < 0.5)
        if k == "tuple":
            return TupleE([self.literal(t) for t in ty[1]])
        if k == "array":
            return ArrayE([self.literal(ty[1]) for _ in range(ty[2])], ty[1])
        if k == "list":
            n = r.randrange(ty[2])
            return ListE([self.literal(ty[1]) for _ in range(n)], ty[1], ty[2])
        if k == "option":
            return NoneE(ty[1]) if r.random() < 0.4 else SomeE(self.literal(ty[1]))
        if k == "either":
            return LeftE(self.literal(ty[1]), ty[2]) if r.random() < 0.5 else RightE(self.literal(ty[2]), ty[1])
        raise ValueError(ty)


# interpreted jets by result type: (jet, [param types])
JETS_BY_RESULT = {
    U(8): [("xor_8", [U(8), U(8)]), ("max_8", [U(8), U(8)]), ("complement_8", [U(8)]), ("leftmost_16_8", [U(16)]), ("rightmost_16_8", [U(16)])],
    U(16): [("multiply_8", [U(8), U(8)]), ("left_pad_low_8_16", [U(8)]), ("xor_16", [U(16), U(16)]), ("right_pad_high_8_16", [U(8)])],
    U(32): [("and_32", [U(32), U(32)]), ("left_extend_16_32", [U(16)]), ("min_32", [U(32), U(32)])],
    U(64): [("or_64", [U(64), U(64)]), ("left_pad_low_32_64", [U(32)])],
    U(1): [("and_1", [U(1), U(1)]), ("leftmost_8_1", [U(8)]), ("complement_1", [U(1)])],
    U(2): [("leftmost_8_2", [U(8)]), ("rightmost_16_2", [U(16)])],
    U(4): [("rightmost_8_4", [U(8)]), ("leftmost_16_4", [U(16)])],
    BOOL: [("lt_8", [U(8), U(8)]), ("le_16", [U(16), U(16)]), ("eq_32", [U(32), U(32)]), ("is_zero_8", [U(8)]), ("some_1", [U(1)])],
    TUP(BOOL, U(8)): [("add_8", [U(8), U(8)]), ("subtract_8", [U(8), U(8)]), ("increment_8", [U(8)]), ("full_add_8", [BOOL, U(8), U(8)])],
    TUP(BOOL, U(16)): [("subtract_16", [U(16), U(16)]), ("negate_16", [U(16)])],
    TUP(U(8), U(8)): [("div_mod_8", [U(8), U(8)])],
}


def cast_sources(ty):
    """types with the same documented layout as ty (book/src/type_casting.md), excluding ty itself"""
    k = ty[0]
    out = []
    if k == "bool":
        out += [U(1), EITHER(UNIT, UNIT)]
    if k == "u":
        n = ty[1]
        if n == 1:
            out += [BOOL]
        if n >= 2:
            out += [TUP(U(n // 2), U(n // 2)), ARR(U(n // 2), 2)]
        if n >= 4:
            out += [ARR(U(n // 4), 4)]
    if k == "option":
        out += [EITHER(UNIT, ty[1])]
    if k == "either" and ty[1] == UNIT:
        out += [OPT(ty[2])]
    if k == "tuple":
        ts = ty[1]
        if len(ts) == 1:
            out += [ts[0]]
        if len(ts) == 3:
            out += [TUP(ts[0], TUP(ts[1], ts[2]))]
        if len(ts) == 4:
            out += [TUP(TUP(ts[0], ts[1]), TUP(ts[2], ts[3]))]
        if len(ts) == 5:
            out += [TUP(ts[0], TUP(TUP(ts[1], ts[2]), TUP(ts[3], ts[4])))]
        if len(ts) >= 2 and all(t == ts[0] for t in ts):
            out += [ARR(ts[0], len(ts))]
        if len(ts) == 0:
            out += [ARR(U(8), 0)]
    if k == "array":
        n, t = ty[2], ty[1]
        if n == 0:
            out += [UNIT]
        if n == 1:
            out += [t, TUP(t)]
        if n >= 2:
            out += [TUP(*([t] * n))]
        if n == 4:
            out += [ARR(ARR(t, 2), 2)]
        if n == 3:
            out += [TUP(t, ARR(t, 2))]
    if k == "list":
        t, b = ty[1], ty[2]
        out += [OPT(t)] if b == 2 else [TUP(OPT(ARR(t, b // 2)), LIST(t, b // 2))]
    return [t for t in out if t != ty]


FORMS = ["literal", "witness", "variable", "paren", "constructor", "block0", "block2", "block_shadow",
         "match_bool", "match_bool_rev", "match_option", "match_option_rev", "match_either", "match_either_block",
         "call0", "call1", "call_nested", "call_twice", "jet", "unwrap", "unwrap_left", "unwrap_right", "dbg", "cast",
         "let_pattern", "is_none", "fold", "for_while", "assert_stmt", "panic_arm", "unit_stmt"]


def applicable(form, ty):
    k = ty[0]
    if form == "jet":
        return ty in JETS_BY_RESULT
    if form == "cast":
        return bool(cast_sources(ty))
    if form == "constructor":
        return k in ("tuple", "array", "list", "option", "either", "bool")
    if form == "is_none":
        return k == "bool"
    if form == "fold":
        return ty in (U(8), TUP(U(8), U(8)))
    if form == "for_while":
        return ty in (EITHER(U(8), U(8)), EITHER(BOOL, U(16)))
    if form == "let_pattern":
        return k in ("tuple", "array") and width(ty) > 0
    if form in ("assert_stmt", "unit_stmt"):
        return True
    return True


def focus(g, form, ty, leaf):
    """an expression of type ty whose outermost form is `form`; `leaf(ty)` supplies sub-expressions.
    Returns (prefix statements, expression)."""
    r = g.rng
    pre = []
    if form == "literal":
        return pre, g.literal(ty)
    if form == "witness":
        return pre, g.wit(ty)
    if form == "variable":
        n = g.var_name()
        return [Let(n, ty, leaf(ty))], Var(n, ty)
    if form == "paren":
        return pre, Paren(leaf(ty))
    if form == "constructor":
        k = ty[0]
        if k == "bool":
            return pre, BoolLit(r.random() < 0.5)
        if k == "tuple":
            return pre, TupleE([leaf(t) for t in ty[1]])
        if k == "array":
            return pre, ArrayE([leaf(ty[1]) for _ in range(ty[2])], ty[1])
        if k == "list":
            n = r.randrange(ty[2])
            return pre, ListE([leaf(ty[1]) for _ in range(n)], ty[1], ty[2])
        if k == "option":
            return pre, (NoneE(ty[1]) if r.random() < 0.3 else SomeE(leaf(ty[1])))
        if k == "either":
            return pre, (LeftE(leaf(ty[1]), ty[2]) if r.random() < 0.5 else RightE(leaf(ty[2]), ty[1]))
    if form == "block0":
        return pre, Block([], leaf(ty))
    if form == "block2":
        a, b = g.var_name(), g.var_name()
        return pre, Block([Let(a, ty, leaf(ty)), Let(b, U(8), leaf(U(8))),
                           ExprStmt(Assert(JetCall("le_8", [Var(b, U(8)), leaf(U(8))], BOOL)))], Var(a, ty))
    if form == "block_shadow":
        a = g.var_name()
        return [Let(a, ty, leaf(ty))], Block([Let(a, ty, leaf(ty)), ExprStmt(Block([Let(a, U(8), leaf(U(8)))]))], Var(a, ty))
    if form in ("match_bool", "match_bool_rev"):
        t_arm, f_arm = Arm("true", leaf(ty)), Arm("false", Block([], leaf(ty)))
        arms = (f_arm, t_arm) if form == "match_bool" else (t_arm, f_arm)
        return pre, Match(leaf(BOOL), *arms)
    if form in ("match_option", "match_option_rev"):
        x = g.var_name()
        inner = r.choice([U(8), ty]) if width(ty) > 0 else U(8)
        some_body = Var(x, ty) if inner == ty else Block([ExprStmt(Assert(JetCall("lt_8", [Var(x, U(8)), leaf(U(8))], BOOL)))], leaf(ty))
        n_arm, s_arm = Arm("none", leaf(ty)), Arm("some", some_body, x, inner)
        arms = (n_arm, s_arm) if form == "match_option" else (s_arm, n_arm)
        return pre, Match(leaf(OPT(inner)), *arms)
    if form in ("match_either", "match_either_block"):
        x = g.var_name()
        y = x if form == "match_either" else g.var_name()
        lt = ty if width(ty) > 0 else U(8)
        l_body = Var(x, ty) if lt == ty else leaf(ty)
        r_body = Block([Let(g.var_name(), U(16), Var(y, U(16)))], leaf(ty)) if form == "match_either_block" else leaf(ty)
        l_arm, r_arm = Arm("left", l_body, x, lt), Arm("right", r_body, y, U(16))
        arms = (l_arm, r_arm) if r.random() < 0.7 else (r_arm, l_arm)
        return pre, Match(leaf(EITHER(lt, U(16))), *arms)
    if form == "call0":
        f = g.add_fn(FnDef(g.fn_name("konst"), [], ty, Block([], g.literal(ty))))
        return pre, Call(f, [])
    if form == "call1":
        f = g.add_fn(FnDef(g.fn_name("ident"), [("x", ty)], ty, Block([], Var("x", ty))))
        return pre, Call(f, [leaf(ty)])
    if form == "call_nested":
        f1 = g.add_fn(FnDef(g.fn_name("second"), [("a", U(8)), ("b", ty), ("c", BOOL)], ty, Block([], Var("b", ty))))
        f2 = g.add_fn(FnDef(g.fn_name("outer"), [("b", ty), ("a", U(8))], ty,
                             Block([Let("c", BOOL, JetCall("is_zero_8", [Var("a", U(8))], BOOL))], Call(f1, [Var("a", U(8)), Var("b", ty), Var("c", BOOL)]))))
        return pre, Call(f2, [leaf(ty), leaf(U(8))])
    if form == "call_twice":
        f = g.add_fn(FnDef(g.fn_name("pick"), [("sel", BOOL), ("a", ty), ("b", ty)], ty,
                           Block([], Match(Var("sel", BOOL), Arm("false", Var("a", ty)), Arm("true", Var("b", ty))))))
        return pre, Call(f, [leaf(BOOL), Call(f, [leaf(BOOL), leaf(ty), leaf(ty)]), leaf(ty)])
    if form == "jet":
        name, ptys = r.choice(JETS_BY_RESULT[ty])
        return pre, JetCall(name, [leaf(t) for t in ptys], ty)
    if form == "unwrap":
        return pre, Unwrap(leaf(OPT(ty)))
    if form == "unwrap_left":
        return pre, UnwrapLeft(leaf(EITHER(ty, r.choice([U(8), U(16), UNIT, BOOL]))))
    if form == "unwrap_right":
        return pre, UnwrapRight(leaf(EITHER(r.choice([U(8), U(16), UNIT, BOOL]), ty)))
    if form == "dbg":
        return pre, Dbg(leaf(ty))
    if form == "cast":
        src = r.choice(cast_sources(ty))
        return pre, Cast(leaf(src), ty)
    if form == "let_pattern":
        # destructure a value and rebuild it with its components permuted back
        names = []
        if ty[0] == "tuple":
            pats, elems = [], []
            for t in ty[1]:
                n = g.var_name()
                pats.append(PVar(n))
                elems.append(Var(n, t))
            return [Let(PTuple(pats), ty, leaf(ty))], TupleE(elems)
        pats, elems = [], []
        for _ in range(ty[2]):
            n = g.var_name()
            pats.append(PVar(n))
            elems.append(Var(n, ty[1]))
        return [Let(PArray(pats), ty, leaf(ty))], ArrayE(elems, ty[1])
    if form == "is_none":
        return pre, IsNone(leaf(OPT(r.choice([U(8), UNIT, TUP(U(8), U(16))]))))
    if form == "fold":
        if ty == U(8):
            f = g.add_fn(FnDef(g.fn_name("step"), [("e", U(8)), ("acc", U(8))], U(8), Block([
                Let(PTuple([PIgnore(), PVar("d")]), TUP(BOOL, U(8)), JetCall("subtract_8", [Var("e", U(8)), Var("acc", U(8))], TUP(BOOL, U(8))))], Var("d", U(8)))))
            return pre, Fold(f, 4, leaf(LIST(U(8), 4)), leaf(U(8)))
        ET = OPT(U(8))
        f = g.add_fn(FnDef(g.fn_name("step"), [("e", ET), ("acc", ty)], ty, Block([
            Let(PTuple([PVar("p"), PVar("q")]), ty, Var("acc", ty))],
            Match(Var("e", ET), Arm("none", TupleE([Var("q", U(8)), Var("p", U(8))])),
                  Arm("some", TupleE([Var("x", U(8)), Var("p", U(8))]), "x", U(8))))))
        return pre, Fold(f, 8, leaf(LIST(ET, 8)), leaf(ty))
    if form == "for_while":
        B, A = ty[1], ty[2]
        aw = A[1]
        body = Match(JetCall("eq_%d" % aw, [Var("acc", A), Var("ctx", A)], BOOL),
                     Arm("true", LeftE(Var("acc", A) if B == A else JetCall("is_zero_%d" % aw, [Var("acc", A)], BOOL), A)),
                     Arm("false", RightE(Block([Let(PTuple([PIgnore(), PVar("n")]), TUP(BOOL, A),
                                                    JetCall("increment_%d" % aw, [Var("acc", A)], TUP(BOOL, A)))], Var("n", A)), B)))
        f = g.add_fn(FnDef(g.fn_name("looper"), [("acc", A), ("ctx", A), ("i", U(2))], ty, Block([], body)))
        return pre, ForWhile(f, leaf(A), leaf(A))
    if form == "assert_stmt":
        n = g.var_name()
        return [Let(n, ty, leaf(ty)), ExprStmt(Assert(JetCall("lt_8", [leaf(U(8)), leaf(U(8))], BOOL)))], Var(n, ty)
    if form == "panic_arm":
        return pre, Match(leaf(BOOL), Arm("false", leaf(ty)), Arm("true", Panic(ty)))
    if form == "unit_stmt":
        n = g.var_name()
        f = g.add_fn(FnDef(g.fn_name("check"), [("x", U(8))], UNIT, Block([ExprStmt(Assert(JetCall("some_8", [Var("x", U(8))], BOOL)))])))
        return [Let(n, ty, leaf(ty)), ExprStmt(Call(f, [leaf(U(8))])), ExprStmt(TupleE([]))], Var(n, ty)
    raise ValueError(form)


CONTEXTS = ["main", "nested_block", "match_arm", "function_body", "call_argument", "let_rhs_block", "tuple_component"]


def in_context(g, ctx, ty, make):
    """make(leaf) -> (prefix stmts, expr of type ty).  Returns main-level statements ending with an
    observation of the value."""
    wit_leaf = lambda t: g.wit(t)
    if ctx == "main":
        pre, e = make(wit_leaf)
        return pre + observe(e, ty, "EXP", g.fresh)
    if ctx == "nested_block":
        pre, e = make(wit_leaf)
        n = g.var_name()
        inner = Block([Let("unused_inner", U(8), g.wit(U(8)))])
        return [Let(n, ty, Block([ExprStmt(inner)] + pre, Block([], Block([], e))))] + observe(Var(n, ty), ty, "EXP", g.fresh)
    if ctx == "match_arm":
        pre, e = make(wit_leaf)
        n = g.var_name()
        other = g.wit(ty)
        return [Let(n, ty, Match(g.wit(BOOL), Arm("false", other), Arm("true", Block(pre, e))))] + observe(Var(n, ty), ty, "EXP", g.fresh)
    if ctx == "function_body":
        # witnesses are only allowed in main: pass them in as parameters
        params = []

        def param_leaf(t):
            name = "p%d" % len(params)
            params.append((name, t, g.wit(t)))
            return Var(name, t)

        pre, e = make(param_leaf)
        f = g.add_fn(FnDef(g.fn_name("body"), [(n, t) for n, t, _ in params], ty, Block(pre, e)))
        return observe(Call(f, [w for _, _, w in params]), ty, "EXP", g.fresh)
    if ctx == "call_argument":
        pre, e = make(wit_leaf)
        f = g.add_fn(FnDef(g.fn_name("through"), [("k", U(8)), ("x", ty)], ty, Block([], Var("x", ty))))
        return pre + observe(Call(f, [g.wit(U(8)), e]), ty, "EXP", g.fresh)
    if ctx == "let_rhs_block":
        pre, e = make(wit_leaf)
        n = g.var_name()
        return [Let(n, ty, Block(pre + [Let(n, U(8), g.wit(U(8)))], e))] + observe(Var(n, ty), ty, "EXP", g.fresh)
    if ctx == "tuple_component":
        pre, e = make(wit_leaf)
        n, m = g.var_name(), g.var_name()
        tt = TUP(U(8), ty, BOOL)
        return pre + [Let(PTuple([PIgnore(), PVar(n), PVar(m)]), tt, TupleE([g.wit(U(8)), e, g.wit(BOOL)]))] + \
            observe(Var(n, ty), ty, "EXP", g.fresh) + [ExprStmt(Assert(Var(m, BOOL)))]
    raise ValueError(ctx)


def matrix_program(form, ty, ctx, seed):
    g = G(random.Random(hash((form, ty_str(ty), ctx, seed)) & 0xFFFFFFFF))
    stmts = in_context(g, ctx, ty, lambda leaf: focus(g, form, ty, leaf))
    return Program(g.fns, Block(stmts))


def random_program(seed, depth, n_stmts):
    rng = random.Random(seed)
    g = G(rng)
    pool = base_types() + types_depth1() + types_depth2()
    scope = []  # (name, ty) visible in main

    def gen(ty, d, leaf_fn, in_fn):
        if d <= 0:
            return leaf_fn(ty)
        forms = [f for f in FORMS if applicable(f, ty)]
        for _ in range(6):
            form = rng.choice(forms)
            if in_fn and form in ("witness",):
                continue
            if form in ("fold", "for_while") and d < 2:
                continue
            pre, e = focus(g, form, ty, lambda t: gen(t, d - 1, leaf_fn, in_fn))
            if pre:
                return Block(pre, e)
            return e
        return leaf_fn(ty)

    def main_leaf(ty):
        cands = [n for n, t in scope if t == ty]
        x = rng.random()
        if cands and x < 0.35:
            return Var(rng.choice(cands), ty)
        if x < 0.5:
            return g.literal(ty)
        return g.wit(ty)

    stmts = []
    for i in range(n_stmts):
        ty = rng.choice(pool)
        e = gen(ty, depth, main_leaf, False)
        n = g.var_name()
        stmts.append(Let(n, ty, e))
        scope.append((n, ty))
        if width(ty) > 0 and rng.random() < 0.8:
            stmts += observe(Var(n, ty), ty, "EXP%d" % i, g.fresh)
    return Program(g.fns, Block(stmts))


def cases(tier, seed):
    out = []
    types = base_types() + types_depth1() + types_depth2() + (types_depth3() if tier == "thorough" else types_depth3()[:2])
    n = 0
    for form in FORMS:
        for ty in types:
            if not applicable(form, ty):
                continue
            ctxs = CONTEXTS if tier == "thorough" else [CONTEXTS[(n + i) % len(CONTEXTS)] for i in range(2)]
            for ctx in ctxs:
                if form == "witness" and ctx == "function_body":
                    continue
                prog = matrix_program(form, ty, ctx, seed)
                out.append(E.Case("m-%s-%s-%s" % (form, ty_str(ty).replace(" ", ""), ctx), prog,
                                  tags={"part": "matrix", "form": form, "type": ty_str(ty), "context": ctx, "seed": seed}))
                n += 1
    k = 300 if tier == "quick" else 5000
    for i in range(k):
        s = seed * 1000003 + i
        prog = random_program(s, depth=2 + (i % 2), n_stmts=1 + i % 4)
        out.append(E.Case("r-%d" % s, prog, tags={"part": "seeded", "seed": seed, "index": i}))
    # canary: resolving variables to the oldest binding must be caught on a shadowing program
    prog = matrix_program("block_shadow", U(8), "main", seed)
    out.append(E.Case("canary-shadow", prog, mut={"outer_binding"}, tags={}))
    return out


def main():
    tier, seed = suite.tier_seed()
    cs = cases(tier, seed)

    def extra(results):
        forms = sorted(set(r["tags"].get("form") for r in results if r["tags"].get("form") and r["status"] == "held"))
        tys = sorted(set(r["tags"].get("type") for r in results if r["tags"].get("type") and r["status"] == "held"))
        return {"forms_covered": forms, "result_types_covered": len(tys), "contexts": CONTEXTS,
                "matrix_cases": sum(1 for r in results if r["tags"].get("part") == "matrix"),
                "seeded_cases": sum(1 for r in results if r["tags"].get("part") == "seeded")}

    return suite.run_property(
        "C01", cs,
        technique="SMT-based translation validation: symbolic execution of the emitted Simplicity DAG vs. symbolic big-step source evaluator, z3 QF_UFBV over all witness bits, both debug settings",
        functions=["compile.rs: Scope, compile_blk, Expression/SingleExpression/Call/Match::compile, with_debug_symbol",
                   "pattern.rs: BasePattern::from/get/translate", "named.rs: PairBuilder/SelectorBuilder/CoreExt",
                   "array.rs: BTreeSlice/Partition (tupling, list literals)", "value.rs/types.rs: scribed constants, structural types",
                   "parse.rs/ast.rs: arm normalisation, typing (accepts the generated programs)"],
        bounds={"matrix": "form x result type x context; %d forms, types up to nesting depth 2 (+ a few of depth 3), %d contexts (2 per cell in quick, all in thorough)" % (len(FORMS), len(CONTEXTS)),
                "seeded": "300 (quick) / 5000 (thorough) random compositions, expression depth <= 3, 1-4 top-level statements",
                "witness_space": "all bits of every witness, universally quantified by the solver"},
        outside=["programs outside the family", "jets other than the ~300 modelled ones are not used here", "u128/u256 leaves in this family (C11/C13 cover them)",
                 "satisfy/encode/decode of the library: exercised only by the concrete cross-validation runs; a witness whose type is not pinned by a consumer makes the encoded program undecodable (DESIGN 7-D4) - such runs are skipped and counted"],
        assumptions=["z3 4.8.12 is sound on QF_UFBV", "source evaluator + book layout (simsym/src.py) are the specification",
                     "simplicity-lang type finalisation supplies the DAG's types"],
        min_validated=300,
    )
