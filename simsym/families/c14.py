"""C14 - debug symbols are behaviour-neutral and point at the right call.

Neutrality: for every program of the other E1 families (a slice in quick, all in thorough), a set of
debug-specific programs, and all shipped examples (jets uninterpreted), the solver proves
fails(debug build) == fails(plain build) for all witnesses; for the generated programs it also proves both
equal the source semantics.  Marker bookkeeping (structural facts about the emitted artefact): every
assertl node of the debug build is either the `unwrap_left` fail node or carries a CMR that resolves
through debug_symbols(); the marker is entered with the constant tag `false`; the set of (kind, text) the
markers resolve to equals the set of tracked calls the program text contains; distinct tracked call sites
have distinct CMRs.  Marker values: for every dbg!/unwrap_left/unwrap_right marker the solver proves that, on every
successful run that reaches it, the marker node's argument equals the book-layout bits of the source-level value
of the call's argument; on solver-completed witnesses the real TrackedCall::map_value is applied to those bits and
must return the value the book layout reads from them.  The span -> text kernel is covered by the Kani harnesses
(kani/, C14 span_*).
"""
import glob, json, os, random

from ..src import *
from .. import engine as E
from .. import suite
from ..observe import observe, Fresh
from . import c01, c08, c09, c10


def debug_programs():
    out = []
    U8 = U(8)
    # dbg! in main, in a function called twice, inside a fold body and a for_while body
    f = FnDef("twice", [("x", U8)], U8, Block([ExprStmt(Assert(JetCall("some_8", [Var("x", U8)], BOOL)))], Dbg(JetCall("complement_8", [Var("x", U8)], U8))))
    main = Block([Let("a", U8, Call(f, [Wit("A", U8)])), Let("b", U8, Call(f, [Dbg(Wit("B", U8))]))] +
                 observe(Var("a", U8), U8, "EA", Fresh("p")) + observe(Var("b", U8), U8, "EB", Fresh("q")))
    out.append(("dbg-function-twice", Program([f], main)))
    step = FnDef("step", [("e", U8), ("acc", U8)], U8, Block([
        ExprStmt(Assert(JetCall("le_8", [Var("acc", U8), Dbg(Var("e", U8))], BOOL)))], Unwrap(SomeE(Var("e", U8)))))
    main = Block([Let("r", U8, Fold(step, 8, Wit("L", LIST(U8, 8)), Wit("I", U8)))] + observe(Var("r", U8), U8, "E", Fresh("p")))
    out.append(("dbg-in-fold-body", Program([step], main)))
    body = FnDef("body", [("acc", U8), ("ctx", U8), ("i", U(2))], EITHER(U8, U8), Block([], Match(
        JetCall("eq_8", [Var("acc", U8), Var("ctx", U8)], BOOL),
        Arm("true", LeftE(Dbg(Var("acc", U8)), U8)),
        Arm("false", RightE(UnwrapRight(RightE(Block([Let(PTuple([PIgnore(), PVar("n")]), TUP(BOOL, U8), JetCall("increment_8", [Var("acc", U8)], TUP(BOOL, U8)))], Var("n", U8)), UNIT)), U8)))))
    main = Block([Let("r", EITHER(U8, U8), ForWhile(body, Wit("A", U8), Wit("C", U8)))] + observe(Var("r", EITHER(U8, U8)), EITHER(U8, U8), "E", Fresh("p")))
    out.append(("dbg-in-for_while-body", Program([body], main)))
    # every tracked kind once, with arguments that span lines (block arguments)
    main = Block([
        Let("x", U8, Dbg(Block([Let("t", U8, Wit("A", U8))], Var("t", U8)))),
        Let("y", U8, UnwrapLeft(Match(Wit("S", BOOL), Arm("false", LeftE(Var("x", U8), U(16))), Arm("true", RightE(Wit("R", U(16)), U8))))),
        Let("z", U8, UnwrapRight(Wit("Z", EITHER(UNIT, U8)))),
        Let("w", U8, Unwrap(Wit("O", OPT(U8)))),
        ExprStmt(Match(JetCall("lt_8", [Var("y", U8), Var("z", U8)], BOOL), Arm("false", Panic(UNIT)), Arm("true", Block([ExprStmt(Assert(JetCall("eq_8", [Var("w", U8), Wit("E", U8)], BOOL)))])))),
    ])
    out.append(("all-tracked-kinds", Program([], main)))
    return out


def value_programs(tier):
    """what the markers of dbg!/unwrap_left/unwrap_right receive (last clause of C14): one program per type and
    position - main level, function called twice, match arms, computed arguments"""
    out = []
    tys = c01.types_depth1() + c01.types_depth2() + c01.types_depth3() + [U(1), U(8), U(64), BOOL, U(256)]
    tys = [t for t in tys if width(t) > 0]
    for i, ty in enumerate(tys):
        fr = Fresh("p")
        # main level + a function called twice with different arguments
        show = FnDef("show", [("x", ty)], ty, Block([], Dbg(Var("x", ty))))
        main = Block([Let("a", ty, Dbg(Wit("A", ty))),
                      Let("b", ty, Call(show, [Var("a", ty)])),
                      Let("c", ty, Call(show, [Wit("C", ty)]))] +
                     observe(Var("b", ty), ty, "EXPB", fr) + observe(Var("c", ty), ty, "EXPC", fr))
        out.append(("val/%02d-%s/main+fn-twice" % (i, ty_str(ty)), Program([show], main)))
        # in match arms (one arm reached per run), argument is the arm's own binding
        main = Block([Let("r", ty, Match(Wit("S", EITHER(ty, ty)),
                                         Arm("left", Dbg(Var("l", ty)), "l", ty),
                                         Arm("right", Block([Let("t", ty, Var("r0", ty))], Dbg(Var("t", ty))), "r0", ty)))] +
                     observe(Var("r", ty), ty, "EXPR", fr))
        out.append(("val/%02d-%s/match-arms" % (i, ty_str(ty)), Program([], main)))
    # unwrap_left / unwrap_right: the marker receives the whole Either
    pairs = [(U(8), U(16)), (U(16), U(8)), (UNIT, U(8)), (U(8), UNIT), (BOOL, OPT(U(8))), (OPT(U(8)), TUP(U(8), BOOL)),
             (EITHER(U(8), U(16)), U(32)), (ARR(U(8), 3), LIST(U(8), 4)), (U(1), U(1)), (TUP(U(4), U(4)), U(8))]
    for i, (lt, rt) in enumerate(pairs):
        et = EITHER(lt, rt)
        fr = Fresh("p")
        stmts = []
        if width(lt):
            stmts += [Let("x", lt, UnwrapLeft(Wit("A", et)))] + observe(Var("x", lt), lt, "EXPX", fr)
        if width(rt):
            stmts += [Let("y", rt, UnwrapRight(Wit("B", et)))] + observe(Var("y", rt), rt, "EXPY", fr)
        out.append(("val/unwrap-%02d-%s" % (i, ty_str(et)), Program([], Block(stmts))))
        # computed argument: built in place from a witness of the payload type
        stmts = []
        if width(lt):
            stmts += [Let("x", lt, UnwrapLeft(LeftE(Wit("A", lt), rt)))] + observe(Var("x", lt), lt, "EXPX", fr)
        if width(rt):
            stmts += [Let("y", rt, UnwrapRight(Match(Wit("S", BOOL), Arm("false", RightE(Wit("B", rt), lt)), Arm("true", Wit("C", et)))))] + observe(Var("y", rt), rt, "EXPY", fr)
        out.append(("val/unwrap-computed-%02d-%s" % (i, ty_str(et)), Program([], Block(stmts))))
    # dbg! of computed values
    U8 = U(8)
    fr = Fresh("p")
    t1 = TUP(U8, OPT(U(16)), EITHER(BOOL, U8))
    main = Block([Let("v", t1, Dbg(TupleE([Wit("A", U8), SomeE(Wit("B", U(16))), RightE(Wit("C", U8), BOOL)])))] + observe(Var("v", t1), t1, "EXP", fr))
    out.append(("val/computed-tuple", Program([], main)))
    t2 = ARR(OPT(U8), 3)
    main = Block([Let("v", t2, Dbg(ArrayE([SomeE(Wit("A", U8)), NoneE(OPT(U8)), Wit("B", OPT(U8))], OPT(U8))))] + observe(Var("v", t2), t2, "EXP", fr))
    out.append(("val/computed-array", Program([], main)))
    t3 = LIST(U8, 8)
    main = Block([Let("v", t3, Dbg(ListE([Wit("A", U8), Lit(U8, 7), Wit("B", U8)], U8, 8)))] + observe(Var("v", t3), t3, "EXP", fr))
    out.append(("val/computed-list", Program([], main)))
    t4 = TUP(BOOL, U8)
    main = Block([Let("v", t4, Dbg(JetCall("add_8", [Wit("A", U8), Dbg(Wit("B", U8))], t4)))] + observe(Var("v", t4), t4, "EXP", fr))
    out.append(("val/nested-dbg-jet-result", Program([], main)))
    return out


def one_line(text):
    return " ".join(text.split())


def example_cases():
    out = []
    for path in sorted(glob.glob("/repo/examples/*.simf")):
        text = open(path).read()
        name = os.path.basename(path)[:-5]
        c = E.Case("example-" + name, None, interpret=False, validate=False, text=text, check_markers=True,
                   tags={"kind": "shipped example", "file": "examples/%s.simf" % name})
        argfile = path[:-5] + ".args"
        if os.path.exists(argfile):
            raw = json.load(open(argfile))
            alias = {"Pubkey": "u256"}
            c.raw_args = {k: {"type": alias.get(v["type"], v["type"]), "value": v["value"]} for k, v in raw.items()}
        out.append(c)
    return out


def multibyte_comments(text):
    """comments with 2-, 3- and 4-byte characters inside every call / tuple and after every comma, lines kept as they are:
    columns (characters) and byte offsets differ on every line that has a tracked call"""
    out = text.replace("(", "(/* \u00e9\u2248 */ ").replace(", ", ", /* \u2713\U0001f600 */ ")
    return "// \u00fcber: 2^32 \u2248 4\u00b710^9\n" + out


def cases(tier, seed):
    rng = random.Random(seed)
    out = []
    borrowed = []
    for mod, name in ((c01, "C01"), (c10, "C10"), (c09, "C09"), (c08, "C08")):
        cs = [c for c in mod.cases("quick", seed) if not c.mut and not c.expect_reject and len(c.debug_modes) == 2]
        if name == "C08":
            # the all-lengths-at-once queries at N = 16 are about fold, not about markers, and take 15-30 s each
            cs = [c for c in cs if c.tags.get("N", 0) <= 16 and not (c.tags.get("N", 0) >= 16 and "witness_any" in c.cid)]
        if name == "C09":
            cs = [c for c in cs if c.tags.get("counter_bits", 0) <= 4]
        if tier == "quick":
            rng.shuffle(cs)
            cs = cs[: {"C01": 700, "C10": 300, "C09": 20, "C08": 150}[name]]
        for c in cs:
            c.cid = "%s/%s" % (name, c.cid)
            c.check_markers = True
            c.validate = False
            c.tags = dict(c.tags, family=name)
        borrowed += cs
    out += borrowed
    for name, prog in debug_programs():
        out.append(E.Case("dbg/" + name, prog, check_markers=True, validate=True, tags={"family": "debug-specific"}))
        out.append(E.Case("dbg/" + name + "/one-line", prog, text=one_line(program_text(prog)), check_markers=True, validate=True,
                          tags={"family": "debug-specific", "layout": "single line"}))
        out.append(E.Case("dbg/" + name + "/multibyte-comments", prog, text=multibyte_comments(program_text(prog)), check_markers=True, validate=False,
                          tags={"family": "debug-specific", "layout": "non-ASCII comments inside calls"}))
        out.append(E.Case("dbg/" + name + "/one-line+multibyte-comments", prog, text=multibyte_comments(one_line(program_text(prog))), check_markers=True, validate=False,
                          tags={"family": "debug-specific", "layout": "single line, non-ASCII comments inside calls"}))
    for i, c in enumerate(borrowed[: (60 if tier == "quick" else 400)]):
        if c.text is None and c.prog is not None and not c.wit_fixed:
            out.append(E.Case(c.cid + "/multibyte-comments", c.prog, args=c.args, interpret=c.interpret, text=multibyte_comments(program_text(c.prog)),
                              check_markers=True, validate=False, tags=dict(c.tags, layout="non-ASCII comments inside calls")))
    for name, prog in value_programs(tier):
        out.append(E.Case("dbg/" + name, prog, check_markers=True, validate=False, debug_modes=(False, True), tags={"family": "marker-values"}))
    out += example_cases()
    return out


def main():
    tier, seed = suite.tier_seed()
    cs = cases(tier, seed)

    def extra(results):
        ex = [r for r in results if r["cid"].startswith("example-")]
        return {"shipped_examples_neutral": sum(1 for r in ex if r["status"] == "held"), "shipped_examples": len(ex),
                "marker_nodes_checked": sum(r.get("marker_nodes", 0) for r in results),
                "programs_with_marker_set_compared": sum(1 for r in results if r["status"] == "held" and r.get("dag_markers") is not None),
                "tracked_kinds_seen": sorted(set(k for r in results for k, _ in (r.get("dag_markers") or []))),
                "marker_value_entries_decided": sum(r.get("marker_value_entries", 0) for r in results if r["status"] == "held"),
                "marker_value_queries": sum(r.get("marker_value_queries", 0) for r in results),
                "real_map_value_reconstructions_compared": sum(r.get("marker_reconstructions", 0) for r in results)}

    return suite.run_property(
        "C14", cs, kani=True,
        technique="SMT (z3, QF_UFBV) equivalence of the debug build and the plain build of the emitted Simplicity DAG for all witnesses (jets uninterpreted for the shipped examples); structural comparison of marker CMRs with debug_symbols() and with the tracked calls of the program text; SMT query per program that every dbg!/unwrap_left/unwrap_right marker reached by a successful run receives the book-layout bits of the source-level argument value (all witnesses), with the real TrackedCall::map_value run on solver-completed witnesses",
        functions=["compile.rs: Scope::with_debug_symbol, Call::compile", "debug.rs: CallTracker::track_call/get_cmr/with_file, DebugSymbols::insert/get (through the public API)",
                   "ast.rs: track_call sites", "named.rs: assertl_drop, bit"],
        bounds={"programs": "slice of families F01/F08/F09/F10 (quick) or all of their quick-tier members (thorough), 4 debug-specific programs x 2 layouts, all %d shipped examples" % len(glob.glob('/repo/examples/*.simf')),
                "marker_values": "130 programs: dbg! at 56 types of depth <= 3 (main level, function called twice, match arms), unwrap_left/unwrap_right at 10 Either types (witness and computed arguments), dbg! of computed tuple/array/list/jet results"},
        outside=["Value::reconstruct for ALL values of a type (Kani internal compiler error on Value <-> StructuralValue, DESIGN 1): the real map_value is run on solver-completed successful witnesses only (2 per program)",
                 "marker values on runs that fail (the value a marker receives after an earlier failure point is not defined by the source semantics)",
                 "that pest attaches the span of the call expression (pest internals)", "remove_excess_whitespace (compared modulo whitespace)"],
        assumptions=["z3 4.8.12 is sound on QF_UFBV", "marker texts are compared modulo whitespace"],
        min_validated=10,
    )
