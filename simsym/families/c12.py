"""C12 - template instantiation equals literal substitution.

For each template program (0..4 `param::NAME` occurrences in main and in functions, same name used twice,
parameters in call arguments / tuple components / match scrutinees / fold and loop arguments) two programs are
checked against one specification (parameter = its argument value): (a) the template instantiated with the
argument map, (b) the text obtained by writing each argument literally in place of `param::NAME`.  Both are
proved equivalent to the source semantics for all witnesses, hence to each other.  `parameters()` is compared
with the occurrences in the text, and inconsistent argument maps must be refused by `instantiate`.
"""
import random

from ..src import *
from .. import engine as E
from .. import suite
from ..observe import observe, Fresh
from .c01 import G, types_depth1, types_depth2, base_types

U8 = U(8)


def templates(rng):
    """yields (name, builder) where builder(P) -> Program and P(name, ty) makes the parameter expression"""
    out = []
    tys = [U(1), U(4), U8, U(16), U(64), U(256), BOOL, TUP(U8, U(16)), ARR(U8, 3), OPT(U8), EITHER(U8, U(16)), LIST(U8, 4),
           TUP(OPT(U8), EITHER(U(4), U8)), OPT(TUP(U8, U(16))), LIST(TUP(U8, U8), 4), UNIT, ARR(U8, 0), TUP(U8,),
           U(2), U(32), U(128), ARR(BOOL, 3), LIST(U8, 2), LIST(U8, 8), EITHER(UNIT, U8), OPT(OPT(U8)), ARR(U(16), 5), TUP(U(1), U(2), U(4))]

    for i, ty in enumerate(tys):
        def b(P, ty=ty):
            return Program([], Block(observe(P("A", ty), ty, "EXP", Fresh("o")))), {"A": ty}
        out.append(("single-%s" % ty_str(ty).replace(" ", ""), b))

    def in_function(P):
        f = FnDef("mix", [("y", U8)], U8, Block([], JetCall("xor_8", [Var("y", U8), P("K", U8)], U8)))
        main = Block(observe(Call(f, [Wit("W", U8)]), U8, "EXP", Fresh("o")))
        return Program([f], main), {"K": U8}
    out.append(("in-function", in_function))

    def twice(P):
        f = FnDef("add_k", [("y", U(16))], TUP(BOOL, U(16)), Block([], JetCall("add_16", [Var("y", U(16)), P("K", U(16))], TUP(BOOL, U(16)))))
        main = Block([Let(PTuple([PIgnore(), PVar("s")]), TUP(BOOL, U(16)), Call(f, [P("K", U(16))]))] +
                     observe(TupleE([Var("s", U(16)), P("K", U(16))]), TUP(U(16), U(16)), "EXP", Fresh("o")))
        return Program([f], main), {"K": U(16)}
    out.append(("same-name-twice", twice))

    def four(P):
        f = FnDef("sel", [("c", BOOL), ("a", U8), ("b", U8)], U8, Block([], Match(Var("c", BOOL), Arm("false", Var("a", U8)), Arm("true", Var("b", U8)))))
        step = FnDef("step", [("e", U8), ("acc", U8)], U8, Block([
            Let(PTuple([PIgnore(), PVar("d")]), TUP(BOOL, U8), JetCall("subtract_8", [Var("e", U8), Var("acc", U8)], TUP(BOOL, U8)))], Var("d", U8)))
        main = Block([
            Let("x", U8, Call(f, [P("FLAG", BOOL), P("LOW", U8), Wit("W", U8)])),
            Let("y", U8, Match(P("CHOICE", EITHER(U8, U(16))), Arm("left", Var("l", U8), "l", U8), Arm("right", JetCall("leftmost_16_8", [Var("r", U(16))], U8), "r", U(16)))),
            Let("z", U8, Fold(step, 4, P("ITEMS", LIST(U8, 4)), Var("x", U8))),
        ] + observe(TupleE([Var("x", U8), Var("y", U8), Var("z", U8)]), TUP(U8, U8, U8), "EXP", Fresh("o")))
        return Program([f, step], main), {"FLAG": BOOL, "LOW": U8, "CHOICE": EITHER(U8, U(16)), "ITEMS": LIST(U8, 4)}
    out.append(("four-params", four))

    def loop_ctx(P):
        body = FnDef("body", [("acc", U8), ("ctx", U8), ("i", U(2))], EITHER(U8, U8), Block([], Match(
            JetCall("eq_8", [Var("acc", U8), Var("ctx", U8)], BOOL),
            Arm("true", LeftE(JetCall("xor_8", [Var("acc", U8), P("MASK", U8)], U8), U8)),
            Arm("false", RightE(Block([Let(PTuple([PIgnore(), PVar("n")]), TUP(BOOL, U8), JetCall("increment_8", [Var("acc", U8)], TUP(BOOL, U8)))], Var("n", U8)), U8)))))
        main = Block(observe(ForWhile(body, Wit("A", U8), P("STOP", U8)), EITHER(U8, U8), "EXP", Fresh("o")))
        return Program([body], main), {"MASK": U8, "STOP": U8}
    out.append(("loop-context-and-body", loop_ctx))

    def none(P):
        return Program([], Block(observe(Wit("W", U8), U8, "EXP", Fresh("o")))), {}
    out.append(("no-params", none))

    # two parameters of one type side by side in an order-sensitive position: a swap of the looked-up names shows
    def adjacent(P):
        e = JetCall("subtract_8", [P("A", U8), P("B", U8)], TUP(BOOL, U8))
        return Program([], Block(observe(e, TUP(BOOL, U8), "EXP", Fresh("o")))), {"A": U8, "B": U8}
    out.append(("two-adjacent-same-type", adjacent))

    # names that are prefixes of each other / differ in case / contain digits and underscores
    def lookalike(P):
        e = TupleE([P("K", U8), P("K1", U8), P("K_1", U8), P("k", U8), P("KK", U8)])
        return Program([], Block(observe(e, TUP(U8, U8, U8, U8, U8), "EXP", Fresh("o")))), {"K": U8, "K1": U8, "K_1": U8, "k": U8, "KK": U8}
    out.append(("lookalike-names", lookalike))

    # a function with a parameter, inlined twice, itself called from another function
    def nested_fn(P):
        inner = FnDef("inner", [("y", U8)], U8, Block([], JetCall("xor_8", [Var("y", U8), P("K", U8)], U8)))
        outer = FnDef("outer", [("a", U8), ("b", U8)], TUP(U8, U8), Block([], TupleE([Call(inner, [Var("b", U8)]), Call(inner, [Var("a", U8)])])))
        main = Block(observe(Call(outer, [Wit("W1", U8), P("K", U8)]), TUP(U8, U8), "EXP", Fresh("o")))
        return Program([inner, outer], main), {"K": U8}
    out.append(("nested-function-inlined-twice", nested_fn))

    # a parameter that decides success: unwrap / unwrap_left / assert! on it
    def deciding(P):
        main = Block([Let("a", U8, Unwrap(P("MAYBE", OPT(U8)))), Let("b", U(16), UnwrapRight(P("SIDE", EITHER(U8, U(16))))),
                      ExprStmt(Assert(P("OK", BOOL)))] + observe(TupleE([Var("a", U8), Var("b", U(16))]), TUP(U8, U(16)), "EXP", Fresh("o")))
        return Program([], main), {"MAYBE": OPT(U8), "SIDE": EITHER(U8, U(16)), "OK": BOOL}
    out.append(("parameter-decides-success", deciding))

    # a parameter under a cast, inside dbg!, inside a match arm and in a list literal
    def wrapped(P):
        main = Block([Let("c", U(16), Cast(P("PAIR", TUP(U8, U8)), U(16))),
                      Let("d", U8, Dbg(P("D", U8))),
                      Let("m", U8, Match(Wit("B", BOOL), Arm("false", P("D", U8)), Arm("true", Block([Let("t", U8, P("E", U8))], Var("t", U8))))),
                      Let("l", LIST(U8, 4), ListE([P("D", U8), Wit("W", U8), P("E", U8)], U8, 4))] +
                     observe(TupleE([Var("c", U(16)), Var("d", U8), Var("m", U8)]), TUP(U(16), U8, U8), "EXP", Fresh("o")) +
                     observe(Var("l", LIST(U8, 4)), LIST(U8, 4), "EXPL", Fresh("q")))
        return Program([], main), {"PAIR": TUP(U8, U8), "D": U8, "E": U8}
    out.append(("cast-dbg-arm-list", wrapped))

    # a parameter shadowed by nothing: a variable and a witness of the same name do not interfere
    def same_as_variable(P):
        main = Block([Let("K", U8, Wit("K", U8))] + observe(TupleE([Var("K", U8), P("K", U8)]), TUP(U8, U8), "EXP", Fresh("o")))
        return Program([], main), {"K": U8}
    out.append(("name-shared-with-variable-and-witness", same_as_variable))
    return out


def cases(tier, seed):
    rng = random.Random(seed)
    out = []
    nvals = 3 if tier == "quick" else 8
    for name, build in templates(rng):
        prog_t, ptys = build(lambda n, t: Param(n, t))
        expect = {n: ty_str(t) for n, t in ptys.items()}
        for k in range(nvals):
            g = G(random.Random(hash((name, k, seed)) & 0xFFFFFFF))
            vals = {n: g.literal(t) for n, t in ptys.items()}
            args = {n: (ptys[n], vals[n]) for n in ptys}
            # (a) instantiated template
            out.append(E.Case("param-%s-v%d-instantiated" % (name, k), prog_t, args=args, expect_params=expect,
                              tags={"template": name, "variant": "instantiate(args)", "seed": seed}))
            # (b) literal substitution, checked against the same specification
            prog_l, _ = build(lambda n, t: vals[n])
            out.append(E.Case("param-%s-v%d-substituted" % (name, k), prog_l, expect_params={},
                              tags={"template": name, "variant": "literal substitution", "seed": seed}))
            if k == 0 and ptys:
                # extra arguments are ignored
                extra = dict(args, UNUSED_EXTRA=(U(32), Lit(U(32), 7)))
                out.append(E.Case("param-%s-extra-argument" % name, prog_t, args=extra, expect_params=expect, validate=False,
                                  tags={"template": name, "variant": "extra argument", "seed": seed}))
                # a missing argument is refused
                first = sorted(ptys)[0]
                missing = {n: a for n, a in args.items() if n != first}
                out.append(E.Case("param-%s-missing-argument" % name, prog_t, args=missing, expect_instantiate_error=True, validate=False,
                                  debug_modes=(False,), tags={"template": name, "variant": "missing argument"}))
                # an argument of a different type is refused (same width where possible)
                t = ptys[first]
                w = width(t)
                wrong = {8: TUP(U(4), U(4)), 16: TUP(U8, U8), 1: U(1) if t != U(1) else BOOL, 4: TUP(U(2), U(2)), 64: TUP(U(32), U(32)),
                         256: ARR(U8, 32)}.get(w, U(32) if t != U(32) else U8)
                if wrong == t:
                    wrong = U(32)
                mistyped = dict(args)
                mistyped[first] = (wrong, G(random.Random(k)).literal(wrong))
                out.append(E.Case("param-%s-mistyped-argument" % name, prog_t, args=mistyped, expect_instantiate_error=True, validate=False,
                                  debug_modes=(False,), tags={"template": name, "variant": "mistyped argument", "wrong_type": ty_str(wrong)}))
    # one name at two types is ill-formed
    bad = Program([], Block(observe(Param("A", U8), U8, "E1", Fresh("o")) + observe(Param("A", U(16)), U(16), "E2", Fresh("p"))))
    out.append(E.Case("param-one-name-two-types", bad, expect_reject=True, validate=False, debug_modes=(False,), tags={"kind": "reject"}))
    return out


def main():
    tier, seed = suite.tier_seed()
    return suite.run_property(
        "C12", cases(tier, seed), rejection_is_violation=True,
        technique="SMT-based translation validation: the instantiated template and the literal-substituted text are both proved equivalent to one source-level specification for all witnesses (z3 QF_UFBV); parameters() and instantiate() verdicts compared on enumerated argument maps",
        functions=["lib.rs: TemplateProgram::instantiate / parameters (through ast::Program::{parameters,compile} and Arguments::is_consistent, the calls instantiate makes)",
                   "compile.rs: Scope::get_argument, SingleExpression::compile (Parameter)", "ast.rs: insert_parameter", "witness.rs: Arguments::is_consistent (accept / refuse verdicts on enumerated maps)"],
        bounds={"templates": "18 single-parameter programs over types up to nesting depth 2 + 5 multi-parameter shapes (function body, same name twice, four parameters, loop context and body, none)",
                "argument_values": "2 (quick) / 6 (thorough) seeded literal values per template", "argument_maps": "exact, extra, missing, mistyped (same-width different type)"},
        outside=["Arguments::is_consistent as a function over ALL maps (HashMap + Arc-tree equality: not encodable, DESIGN 6) - only the enumerated maps are exercised",
                 "argument values beyond the sampled ones: arguments are concrete because the compiler scribes them as constants"],
        assumptions=["z3 4.8.12 is sound on QF_UFBV", "source evaluator (simsym/src.py) is the specification"],
        min_validated=100,
    )
