"""C11 - integer literals denote their mathematical value (E1 part: the whole front end, incl. the
grammar rules and the underscore / prefix stripping of parse.rs that the Kani harnesses cannot reach).

Each case is `let x: T = <literal>; observe(x)`: the solver proves that the compiled program succeeds
exactly when the universally quantified witness EXP equals the literal's mathematical value.  Literal
texts (values, notations, underscore placements, leading zeros) are enumerated; ill-formed literals must be
rejected by the front end.  The digit-level universality is the Kani part (kani/src/lib.rs c11_*).
"""
import random

from ..src import *
from .. import engine as E
from .. import suite
from ..observe import observe, Fresh

WIDTHS = (1, 2, 4, 8, 16, 32, 64, 128, 256)


def decorate(digits, rng, style):
    """insert `_` separators / leading zeros into a digit string (decimal digits may start with `_`)"""
    if style == "plain":
        return digits
    if style == "inner" and len(digits) > 1:
        i = rng.randrange(1, len(digits))
        return digits[:i] + "_" + digits[i:]
    if style == "trailing":
        return digits + "_"
    if style == "double" and len(digits) > 1:
        i = rng.randrange(1, len(digits))
        return digits[:i] + "__" + digits[i:] + "_"
    if style == "leading":
        return "_" + digits
    if style == "every":
        return "_".join(digits)
    return digits


def lit_program(ty, expr):
    return Program([], Block(observe(expr, ty, "EXP", Fresh("o"))))


def cases(tier, seed):
    rng = random.Random(seed)
    out = []

    def ok(cid, ty, expr, **tags):
        out.append(E.Case("lit-" + cid, lit_program(ty, expr), tags=dict(tags, kind="accept", seed=seed)))

    def bad(cid, ty, text, **tags):
        expr = Lit(ty, 0, text=text) if ty[0] == "u" else HexBytes(b"\0" * ty[2], text=text)
        out.append(E.Case("lit-reject-" + cid, lit_program(ty, expr), expect_reject=True, validate=False, debug_modes=(False,),
                          tags=dict(tags, kind="reject", literal=text)))

    for n in WIDTHS:
        ty = U(n)
        mx = (1 << n) - 1
        vals = sorted(set([0, 1, mx, mx - 1 if n > 1 else 0, 1 << (n - 1), rng.getrandbits(n), rng.getrandbits(n)] +
                          [10 ** k for k in range(0, 80, 3) if 10 ** k <= mx]))
        styles = ["plain", "inner", "trailing", "double", "every"] if tier == "thorough" else ["plain", "inner", "double"]
        for v in vals:
            for st in styles:
                d = decorate(str(v), rng, st)
                ok("u%d-dec-%d-%s" % (n, v, st), ty, Lit(ty, v, text=d), notation="dec", style=st)
            ok("u%d-dec-%d-leadzero" % (n, v), ty, Lit(ty, v, text="00" + str(v)), notation="dec", style="leading zeros")
            b = format(v, "0%db" % n)
            for st in styles[:2] + (["every"] if n <= 16 else []):
                ok("u%d-bin-%d-%s" % (n, v, st), ty, Lit(ty, v, text="0b" + decorate(b, rng, st)), notation="bin", style=st)
            if n >= 8:
                h = format(v, "0%dx" % (n // 4))
                for st in styles[:2]:
                    ok("u%d-hex-%d-%s" % (n, v, st), ty, Lit(ty, v, text="0x" + decorate(h, rng, st)), notation="hex", style=st)
                ok("u%d-hex-%d-upper" % (n, v), ty, Lit(ty, v, text="0x" + h.upper()), notation="hex", style="upper case")
        # limb and digit-count boundaries: the boundary values of every narrower width, and for every decimal digit
        # count d that fits, the largest d-digit number and a random d-digit number (plain notation only)
        extra = set()
        for m in (8, 16, 32, 64, 128):
            if m < n:
                extra |= {(1 << m) - 1, 1 << m, (1 << m) + 1}
        for d in range(1, len(str(mx)) + 1):
            top = min(mx, 10 ** d - 1)
            extra |= {top, rng.randrange(10 ** (d - 1), top + 1)}
        for v in sorted(extra - set(vals)):
            ok("u%d-dec-%d-digits%d" % (n, v, len(str(v))), ty, Lit(ty, v, text=str(v)), notation="dec", style="digit-count / limb boundary")
            if n >= 8:
                ok("u%d-hex-%d-limb" % (n, v), ty, Lit(ty, v, text="0x" + format(v, "0%dx" % (n // 4))), notation="hex", style="digit-count / limb boundary")
        # ill-formed literals
        bad("u%d-dec-overflow" % n, ty, str(mx + 1))
        bad("u%d-dec-overflow2" % n, ty, str(mx + 2) + "_")
        bad("u%d-dec-overflow-long" % n, ty, "1" + "0" * 90)
        # values that fit again after truncation to a machine width (after S44): 2^m + v for every wider machine width m
        if n < 256:
            for m in (8, 16, 32, 64, 128):
                if m > n or (n < 8 and m == 8):
                    for v in (0, 1, mx):
                        bad("u%d-dec-wraps-at-%d-plus-%d" % (n, m, v), ty, str((1 << m) + v))
        bad("u%d-dec-nodigit" % n, ty, "_")
        bad("u%d-dec-nodigit2" % n, ty, "___")
        bad("u%d-bin-nodigit" % n, ty, "0b_")
        bad("u%d-hex-nodigit" % n, ty, "0x_")
        bad("u%d-bin-short" % n, ty, "0b" + "1" * (n - 1) if n > 1 else "0b__")
        bad("u%d-bin-long" % n, ty, "0b" + "0" * (n + 1))
        if n >= 8:
            bad("u%d-hex-short" % n, ty, "0x" + "f" * (n // 4 - 1))
            bad("u%d-hex-long" % n, ty, "0x" + "0" * (n // 4 + 1))
            bad("u%d-hex-double" % n, ty, "0x" + "0" * (n // 2))
        else:
            for k in (1, 2):
                bad("u%d-hex-%ddigits" % (n, k), ty, "0x" + "1" * k)
    # small widths exhaustively: every leading digit pair of a hex literal, every 8-bit string in the three notations
    # (digit strings that look like another notation's prefix - `0x0b..`, `0b0...`, `0x00x` - are among them)
    for v in range(256):
        ok("u8-hex-all-%02x" % v, U(8), Lit(U(8), v, text="0x%02x" % v), notation="hex", style="exhaustive u8")
        lo = rng.getrandbits(8)
        ok("u16-hex-top-%02x" % v, U(16), Lit(U(16), (v << 8) | lo, text="0x%02x%02x" % (v, lo)), notation="hex", style="every top byte")
        ok("u8-bin-all-%02x" % v, U(8), Lit(U(8), v, text="0b" + format(v, "08b")), notation="bin", style="exhaustive u8")
        ok("u8-dec-all-%d" % v, U(8), Lit(U(8), v, text=str(v)), notation="dec", style="exhaustive u8")
        ok("bytes2-top-%02x" % v, ARR(U(8), 2), HexBytes(bytes([v, lo])), notation="hex bytes", style="every first byte")
        if v % 4 == 0:
            lo3 = rng.getrandbits(24)
            ok("u32-hex-top-%02x" % v, U(32), Lit(U(32), (v << 24) | lo3, text="0x%02X%06x" % (v, lo3)), notation="hex", style="every 4th top byte, upper case")
    for v in list(range(256, 300)) + [999, 1000, 65535]:
        bad("u8-dec-%d" % v, U(8), str(v))
    # byte arrays: n bytes in order
    for nb in (1, 2, 3, 4, 8, 32, 33, 64):
        data = bytes(rng.getrandbits(8) for _ in range(nb))
        ty = ARR(U(8), nb)
        ok("bytes%d" % nb, ty, HexBytes(data), notation="hex bytes")
        ok("bytes%d-sep" % nb, ty, HexBytes(data, text="0x" + decorate(data.hex(), rng, "inner").upper()), notation="hex bytes", style="inner, upper case")
        bad("bytes%d-short" % nb, ty, "0x" + "ab" * (nb - 1) if nb > 1 else "0xa")
        bad("bytes%d-long" % nb, ty, "0x" + "ab" * (nb + 1))
        bad("bytes%d-odd" % nb, ty, "0x" + "ab" * nb + "c")
    bad("bytes0-nodigit", ARR(U(8), 0), "0x_")
    bad("bytes1-nodigit", ARR(U(8), 1), "0x_")
    return out


def classify(r):
    lit = r["tags"].get("literal")
    ty = r["cid"].split("-")[2] if r["cid"].startswith("lit-reject-") else None
    if r["cid"].startswith("lit-reject-") and "nodigit" in r["cid"]:
        return "no-digit-literal-accepted"
    return None


def main():
    tier, seed = suite.tier_seed()
    return suite.run_property(
        "C11", cases(tier, seed), classify=classify, kani=True, rejection_is_violation=True, level="model_checking",
        technique="(a) Kani/CBMC bounded model checking of the literal parsers over ALL digit strings of the stated lengths; (b) SMT-based translation validation of `let x: T = <literal>` programs: the compiled program succeeds iff the quantified witness equals the literal's value",
        functions=["value.rs: UIntValue::{u1,u2,u4,parse_decimal,parse_binary,try_from(&[u8])}, Value::parse_hexadecimal", "num.rs: U256::from_str",
                   "parse.rs: literal token handling (underscore and prefix stripping); minimal.pest: dec_literal/bin_literal/hex_literal (through the E1 programs)",
                   "compile.rs: constants scribed through structural values"],
        bounds={"kani": "decimal: all digit strings of the 3 lengths around the width's maximum for u1..u64 (u128 thorough); binary: all bit strings of length 1..32 (64 thorough) x every type; hex: all digit strings of 0..4 digits (8,16 thorough) x every type; u256 decimal: <= 5 digits; print-parse: every u8",
                "e1": "widths 1..256 x boundary/random/power-of-ten values x {dec,bin,hex} x underscore placements / leading zeros / upper case; byte arrays of 1..64 bytes; ~20 ill-formed literal shapes per width must be rejected"},
        outside=["u256 decimal strings longer than 5 digits under Kani (cost grows cubically, DESIGN 5-C11) - covered only at the enumerated values of the E1 part",
                 "print-parse for widths other than u8 (decimal printer of core::fmt is intractable for CBMC at u64; hex printers re-validate UTF-8)",
                 "value correctness of byte-array hex literals under Kani (Value::array runs CBMC out of memory) - covered at enumerated values by the E1 part"],
        assumptions=["z3 4.8.12 / CBMC 6.11 sound", "Kani's models of std; ASCII stubs for str::chars in the binary and u256 harnesses"],
        min_validated=200,
    )
