"""C09 - for_while iterates 0,1,2,... and stops at the first Left.

Each case is a program with one `for_while::<body>(acc, ctx)`.  The exit iteration is decided by a
*witness* (ctx), so a single solver query covers every exit iteration and "never exits" at once; the
functions applied to the accumulator are uninterpreted in one mode (the nesting of applications
records the order and number of iterations for every possible meaning) and concrete in the other
(replayable on the real Bit Machine).
"""
from ..src import *
from .. import engine as E
from .. import suite


def v(n, t):
    return Var(n, t)


def wide_of(w):
    return 8 if w <= 4 else (16 if w == 8 else 32)


def widen(e, w, to):
    """zero-extend a uW expression to `to` bits using casts/padding jets only"""
    cur = w
    while cur < to:
        if cur in (1,) and to >= 8:
            e = JetCall("left_pad_low_1_8", [e], U(8))
            cur = 8
        elif cur in (2, 4):
            e = Cast(TupleE([Lit(U(cur), 0), e]), U(cur * 2))
            cur *= 2
        else:
            nxt = to if (cur, to) in ((8, 16), (8, 32), (16, 32), (8, 64), (16, 64), (32, 64)) else cur * 2
            e = JetCall("left_pad_low_%d_%d" % (cur, nxt), [e], U(nxt))
            cur = nxt
    return e


def body_exit_at_ctx(w, panic_after=False, bty="same"):
    """exit at the first i with widen(i) == ctx (ctx is wider than the counter: 'never' is included)"""
    W = wide_of(w)
    A = U(8) if w <= 8 else U(16)
    aw = A[1]
    B = A if bty == "same" else BOOL
    ret = EITHER(B, A)
    iw = widen(v("i", U(w)), w, W)
    stmts = [Let("iw", U(W), iw)]
    if panic_after:
        stmts.append(ExprStmt(Assert(JetCall("le_%d" % W, [v("iw", U(W)), v("ctx", U(W))], BOOL))))
    gacc = JetCall("complement_%d" % aw, [v("acc", A)], A)
    left = LeftE(gacc, A) if bty == "same" else LeftE(JetCall("is_zero_%d" % aw, [v("acc", A)], BOOL), A)
    ia = v("iw", U(W)) if W == aw else (widen(v("i", U(w)), w, aw) if w < aw else JetCall("rightmost_%d_%d" % (W, aw), [v("iw", U(W))], A))
    hacc = Block([Let(PTuple([PIgnore(), PVar("d")]), TUP(BOOL, A), JetCall("subtract_%d" % aw, [ia, v("acc", A)], TUP(BOOL, A)))], v("d", A))
    m = Match(JetCall("eq_%d" % W, [v("iw", U(W)), v("ctx", U(W))], BOOL),
              Arm("true", left), Arm("false", RightE(hacc, B)))
    return FnDef("body", [("acc", A), ("ctx", U(W)), ("i", U(w))], ret, Block(stmts, m)), A, U(W), B


def body_ignores_counter(w):
    """counts the accumulator down; exits with the context when it reaches zero"""
    A, C = U(8), U(16)
    ret = EITHER(C, A)
    m = Match(JetCall("is_zero_8", [v("acc", A)], BOOL),
              Arm("true", LeftE(v("ctx", C), A)),
              Arm("false", RightE(Block([Let(PTuple([PIgnore(), PVar("d")]), TUP(BOOL, A), JetCall("decrement_8", [v("acc", A)], TUP(BOOL, A)))], v("d", A)), C)))
    return FnDef("body", [("acc", A), ("ctx", C), ("i", U(w))], ret, Block([], m)), A, C, C


def body_tuple_acc(w):
    """accumulator (u8,u16), unit context, result bool; exits when the first component equals the counter"""
    A = TUP(U(8), U(16))
    C = UNIT
    B = BOOL
    ret = EITHER(B, A)
    i8 = widen(v("i", U(w)), w, 8) if w < 8 else (v("i", U(8)) if w == 8 else JetCall("rightmost_16_8", [v("i", U(16))], U(8)))
    stmts = [Let(PTuple([PVar("a"), PVar("b")]), A, v("acc", A)), Let("i8", U(8), i8)]
    nb = Block([Let(PTuple([PIgnore(), PVar("d")]), TUP(BOOL, U(16)),
                    JetCall("subtract_16", [JetCall("left_pad_low_8_16", [v("i8", U(8))], U(16)), v("b", U(16))], TUP(BOOL, U(16))))], v("d", U(16)))
    m = Match(JetCall("eq_8", [v("a", U(8)), v("i8", U(8))], BOOL),
              Arm("true", LeftE(JetCall("is_zero_16", [v("b", U(16))], BOOL), A)),
              Arm("false", RightE(TupleE([v("a", U(8)), nb]), B)))
    return FnDef("body", [("acc", A), ("ctx", C), ("i", U(w))], ret, Block(stmts, m)), A, C, B


def observe_either(B, A, rvar, fns):
    """assert that the loop result equals a universally quantified expected value"""
    RT = EITHER(B, A)
    stmts = [Let("exp", RT, Wit("EXP", RT))]

    def eq_stmts(a, b, t, tag):
        if t[0] == "u":
            return [ExprStmt(Assert(JetCall("eq_%d" % t[1], [a, b], BOOL)))]
        if t[0] == "bool":
            return [ExprStmt(Assert(JetCall("eq_1", [Cast(a, U(1)), Cast(b, U(1))], BOOL)))]
        if t[0] == "tuple":
            out = []
            names_a = ["%sa%d" % (tag, i) for i in range(len(t[1]))]
            names_b = ["%sb%d" % (tag, i) for i in range(len(t[1]))]
            out.append(Let(PTuple([PVar(n) for n in names_a]), t, a))
            out.append(Let(PTuple([PVar(n) for n in names_b]), t, b))
            for i, et in enumerate(t[1]):
                out += eq_stmts(v(names_a[i], et), v(names_b[i], et), et, tag + "x")
            return out
        raise ValueError(t)

    m = Match(v(rvar, RT),
              Arm("left", Match(v("exp", RT),
                                Arm("left", Block(eq_stmts(v("x", B), v("y", B), B, "l")), "y", B),
                                Arm("right", Panic(UNIT), "y", A)), "x", B),
              Arm("right", Match(v("exp", RT),
                                 Arm("left", Panic(UNIT), "y", B),
                                 Arm("right", Block(eq_stmts(v("x", A), v("y", A), A, "r")), "y", A)), "x", A))
    stmts.append(ExprStmt(m))
    return stmts


def build(kind, w, ctx_lit=None):
    if kind == "exit":
        f, A, C, B = body_exit_at_ctx(w)
    elif kind == "exit_panic_after":
        f, A, C, B = body_exit_at_ctx(w, panic_after=True)
    elif kind == "exit_bool":
        f, A, C, B = body_exit_at_ctx(w, bty="bool")
    elif kind == "countdown":
        f, A, C, B = body_ignores_counter(w)
    elif kind == "tuple_acc":
        f, A, C, B = body_tuple_acc(w)
    else:
        raise ValueError(kind)
    if ctx_lit is not None:
        ctx = Lit(C, ctx_lit)
    else:
        ctx = Wit("CTX", C) if C != UNIT else TupleE([])
    stmts = [Let("r", f.ret, ForWhile(f, Wit("ACC", A), ctx))]
    stmts += observe_either(B, A, "r", [])
    return Program([f], Block(stmts))


def _subdag(nodes, root):
    seen, todo = set(), [root]
    while todo:
        i = todo.pop()
        if i in seen:
            continue
        seen.add(i)
        for k in ("l", "r"):
            if isinstance(nodes[i].get(k), int):
                todo.append(nodes[i][k])
    return seen


def cut_proof(case, res, solver):
    """Compositional proof for a counter too wide for one query (16 bits): the loop is cut after the first `cut` counter bits.

    For a node X of the emitted DAG whose type is  A x (C x 2^cut) -> B + A:
      top:    the whole program with X replaced by an UNINTERPRETED function behaves like the source program whose loop runs
              over the first `cut` counter bits (0,1,2,... first Left wins) with that same function as the body;
      bottom: X itself, on every input (acc, ctx, prefix), is the source loop over the remaining counter bits with the
              counter value  prefix ++ suffix  handed to the real body.
    `top` holds for every meaning of the function, so the meaning `bottom` establishes can be substituted: together they say
    that the program is the source loop over all 2^n counter values in increasing order.  Both obligations are decided by the
    solver for all witnesses / all (acc, ctx, prefix); X is found by trying the nodes of that type."""
    from .. import machine as M
    w, j = case.tags["counter_bits"], case.tags["cut"]
    text = program_text(case.prog)
    res["text"] = text
    fn = case.prog.fns[0]
    A, C = fn.params[0][1], fn.params[1][1]
    wA, wC, wR = width(A), width(C), width(fn.ret)
    proved = {}
    for dbg in case.debug_modes:
        d = E._W["dump"].ask({"text": text, "debug": dbg, "args": {}})
        if not d.get("ok"):
            return {"status": "rejected", "detail": "%s: %s" % (d.get("stage"), (d.get("error") or "")[:400])}
        nodes, types = d["nodes"], d["types"]
        res["nodes"] = max(res["nodes"], len(nodes))
        tidA = [n["t"] for n in nodes if n["k"] == "witness" and n.get("wit") == "ACC"]
        if not tidA:
            raise E.Broken("cut proof: no ACC witness node")
        tidA = tidA[0]
        cands = []
        for i, n in enumerate(nodes):
            st, tt = types[n["s"]], types[n["t"]]
            if st["k"] == "prod" and st["l"] == tidA and st["w"] == wA + wC + j and tt["k"] == "sum" and tt["r"] == tidA and tt["w"] == wR:
                if not any(nodes[x]["k"] == "witness" for x in _subdag(nodes, i)):
                    cands.append(i)
        # the loop levels are `comp` nodes; larger sub-expressions first (the level itself contains its helpers)
        cands.sort(key=lambda i: -len(_subdag(nodes, i)))
        tried = []
        for X in cands[:6]:
            prog = M.Program(d)
            # top
            T.reset()
            m = M.Machine(prog, interpret=case.interpret)
            m.opaque = {X: "cut_level"}
            f_impl = m.run()
            res["evals"] += m.evals
            if not m.opaque_calls:
                tried.append((X, "not reached"))
                continue
            problems = []
            spec = Spec(E._witness_provider(m, d, problems), interpret=case.interpret)
            spec.cut = (j, "cut_level")
            f_spec = spec.run(case.prog)
            goal = T.xor(f_impl, f_spec)
            if goal.op == "c":
                res["closed_by_rewriting"] = res.get("closed_by_rewriting", 0) + 1
            r, _ = solver.check(goal, want_model=False, abstract=True)
            res["queries"] += 1
            if r != "unsat":
                tried.append((X, "top: " + r))
                continue
            E._second_opinion(goal, res)
            # bottom
            T.reset()
            m2 = M.Machine(prog, interpret=case.interpret)
            accv = from_bits(A, T.var("cut_acc", wA)) if wA else from_bits(A, None)
            ctxv = from_bits(C, T.var("cut_ctx", wC)) if wC else from_bits(C, None)
            pre = T.var("cut_prefix", j)
            inp = T.cat([to_bits(A, accv) if wA else None, to_bits(C, ctxv) if wC else None, pre])
            out_impl, f_impl = m2.eval(X, inp)
            res["evals"] += m2.evals

            def nowit(name, ty):
                raise SpecError("witness inside a loop body")

            spec2 = Spec(nowit, interpret=case.interpret)
            result, f_spec = spec2.loop_first_left(
                fn.ret, accv, list(range(1 << (w - j))),
                lambda acc, i: spec2.call_fn(fn, [acc, ctxv, T.cat([pre, T.const(w - j, i)])]))
            out_spec = to_bits(fn.ret, result)
            goal = T.or_(T.xor(f_impl, f_spec), T.and_(T.not_(f_spec), T.not_(T.eq(out_impl, out_spec))))
            if goal.op == "c":
                res["closed_by_rewriting"] = res.get("closed_by_rewriting", 0) + 1
            r, _ = solver.check(goal, want_model=False, abstract=True)
            res["queries"] += 1
            if r != "unsat":
                tried.append((X, "bottom: " + r))
                continue
            E._second_opinion(goal, res)
            proved[dbg] = X
            break
        res.setdefault("cut_candidates", {})[str(dbg)] = {"candidates": len(cands), "rejected": [list(t) for t in tried], "level_node": proved.get(dbg)}
        if dbg not in proved:
            break
    if len(proved) == len(case.debug_modes):
        return {"status": "held"}
    # no node of the DAG passes both obligations: look for a concrete disagreement with the real pipeline on whole runs
    # (the exit iteration is a witness; the source loop is evaluated on constants, the real Bit Machine runs natively)
    import random as _r
    rng = _r.Random(case.cid)
    dbg = case.debug_modes[-1]
    for K in (0, 1, (1 << (w - j)) - 1, 1 << (w - j), (1 << (w - 1)) - 1, 1 << (w - 1), (1 << w) - 1, 1 << w):
        T.reset()
        wb = {"ACC": rng.getrandbits(wA), "CTX": K & ((1 << wC) - 1)}

        def wit(name, ty):
            return from_bits(ty, T.const(width(ty), wb[name]))

        sp = Spec(wit, interpret=True)
        loop = ForWhile(fn, Wit("ACC", A), Wit("CTX", C))
        val, f = sp.eval(loop, [[]])
        if not (f.op == "c"):
            continue
        bits = {"ACC": {"bits": format(wb["ACC"], "0%db" % wA)}, "CTX": {"bits": format(wb["CTX"], "0%db" % wC)}}
        ev = to_bits(fn.ret, val)
        bits["EXP"] = {"bits": format(ev.val, "0%db" % wR) if not f.val else "0" * wR}
        real = E.run_real(case, text, dbg, bits)
        spec_fail = bool(f.val)
        if real.get("ok") and (not real["success"]) != spec_fail:
            rec = {"property_case": case.cid, "text": text, "debug": dbg, "args": {}, "witness": bits,
                   "spec_verdict": "fail" if spec_fail else "success", "real": real, "tags": case.tags}
            return {"status": "violation", "kind": "behaviour", "replay_record": rec,
                    "detail": "no level of the emitted loop passes the compositional proof (%s); exit iteration %d: source semantics %s, real run %s" % (
                        res.get("cut_candidates"), K, rec["spec_verdict"], "success" if real["success"] else "fail")}
    return {"status": "inconclusive", "detail": "compositional proof not found and no concrete disagreement on the probed exit points: %s" % res.get("cut_candidates")}


def cases(tier, seed):
    out = []

    def add(kind, w, interpret, mut=None, ctx_lit=None, validate=None):
        prog = build(kind, w, ctx_lit)
        cid = "forwhile-%s-w%d-%s%s%s" % (kind, w, "int" if interpret else "uf",
                                          "-ctx%d" % ctx_lit if ctx_lit is not None else "",
                                          "-canary-" + "+".join(sorted(mut)) if mut else "")
        out.append(E.Case(cid, prog, interpret=interpret, mut=mut,
                          validate=interpret if validate is None else validate,
                          tags={"kind": kind, "counter_bits": w, "mode": "interpreted" if interpret else "uninterpreted",
                                "exit": "symbolic (witness)" if ctx_lit is None else ctx_lit, "seed": seed}))

    for w in (1, 2, 4, 8):
        for kind in ("exit", "exit_panic_after", "exit_bool", "countdown", "tuple_acc"):
            add(kind, w, False)
            if w == 8 and kind in ("tuple_acc", "exit_bool") and tier == "quick":
                continue  # measured 100-300 s of solver time each: thorough tier only
            add(kind, w, True)
    # 16-bit counter in the quick tier: literal exit points around the byte boundary of the counter, jets
    # interpreted so that loop control folds (1.8 s - 40 s each)
    for K in (0, 1, 2, 257):
        add("exit_panic_after", 16, True, ctx_lit=K, validate=True)
    if tier == "thorough":
        # 16-bit counter: the exit point is a literal, so loop control folds to constants and only the
        # taken path is built.  Exit points up to 4095: a run to 32767 took 45 min in this (Python) engine,
        # the full 65536 iterations twice that - they are outside the tier and outside the claim.
        for K in (0, 1, 2, 255, 256, 257, 1023, 4095):
            add("exit", 16, False, ctx_lit=K, validate=False)
            if K not in (0, 1, 2, 257):
                add("exit_panic_after", 16, True, ctx_lit=K, validate=(K < 1000))
    # 16-bit counter, every exit iteration incl. never: compositional proof, loop cut after 8 counter bits
    # (bodies with uninterpreted jets: ~1-2 min each; the interpreted exit_panic_after body did not finish in 25 min)
    for kind, interp in (("exit_panic_after", False), ("exit", False)) + ((("exit_bool", False), ("countdown", False)) if tier == "thorough" else ()):
        out.append(E.Case("forwhile-%s-w16-%s-cut8" % (kind, "int" if interp else "uf"), build(kind, 16), interpret=interp, custom=cut_proof, validate=False,
                          debug_modes=(False,),  # plain build only: the debug build of these cases ran for 40 min at 15 GB (marker bookkeeping); widths <= 8 cover both builds
                          tags={"kind": kind, "counter_bits": 16, "cut": 8, "mode": "interpreted" if interp else "uninterpreted",
                                "exit": "symbolic (witness), compositional: top 8 bits x bottom 8 bits", "seed": seed}))
    add("exit", 4, False, mut={"fw_no_stop"})
    add("exit_panic_after", 2, True, mut={"fw_no_stop"})
    add("exit", 4, False, mut={"fw_bitrev"})
    add("exit", 4, True, mut={"fw_bitrev"})
    add("exit_bool", 2, False, mut={"fw_no_stop"})
    return out


def main():
    tier, seed = suite.tier_seed()
    return suite.run_property(
        "C09", cases(tier, seed), rejection_is_violation=True,
        technique="SMT (z3, QF_UFBV) equivalence of the symbolically executed emitted Simplicity DAG and a source-level counter loop; exit iteration symbolic; accumulator updates uninterpreted",
        functions=["compile.rs: for_while (for_while_0, adapt_f, task stack), Call::compile (ForWhile)",
                   "ast.rs: for_while signature/typing (accepts the generated programs)", "compile.rs: Match::compile inside the body"],
        bounds={"counter_bits": "1,2,4,8 with a symbolic exit iteration incl. never, one query per program; 16 bits with a symbolic exit iteration incl. never by a compositional proof (cases *-cut8: the loop is cut after 8 counter bits; top obligation: program with the level-8 node X replaced by an uninterpreted function == source loop over 256 prefixes of that function; bottom obligation: X on every (acc, ctx, prefix) == source loop over the 256 suffixes with counter prefix++suffix; both solver-decided, jets uninterpreted); additionally 16 bits with the exit iteration given as a literal, jets interpreted (quick: 0, 1, 2, 257; thorough: 8 literals up to 4095)",
                "bodies": ["exit when counter == ctx", "same + panic after the exit point", "result type differs from accumulator type",
                           "body ignores the counter", "tuple accumulator with unit context"]},
        outside=["16-bit counter with INTERPRETED jets and an exit after iteration 4095 (the compositional proof quantifies over all jet meanings instead)", "loop bodies other than listed", "jet arithmetic (validated concretely only)"],
        assumptions=["z3 4.8.12 is sound on QF_UFBV", "compositional 16-bit proof: substituting the meaning established by the bottom obligation for the uninterpreted function of the top obligation (sound: the top obligation holds for every function; the sub-expression contains no witness node, checked)", "simplicity-lang type finalisation supplies the DAG's types",
                     "source evaluator (simsym/src.py: for_while) is the specification"],
        min_validated=30,
        timeout_s=120, case_budget_s=200,
    )
