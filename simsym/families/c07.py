"""C07 - types, values and casts follow the documented structural layout.

(1) layout step (Kani, kani/src/lib.rs c07_*): the single place where the balanced-tree / partition shape is
    decided (`as_node`) is verified for every size n <= 300 / every list bound <= 64 and every length.
(2) type structure: for every type of family T07 the Simplicity structure the library assigns
    (StructuralType, read through the driver) is compared with the structure the book's casting table gives.
(3) value layout: for sampled values of every type of T07 the library's structural bits equal the book layout.
(4) casts (solver): for EVERY ordered pair (S, T) of T07 the program `let y: T = <S>::into(witness::X)` must be
    accepted exactly when the documented structures are equal, and when accepted the solver proves for all
    bits of X that y, read at T through the book layout, has exactly the bits of X.
"""
import json, random

from ..src import *
from .. import engine as E
from .. import suite
from ..observe import observe, Fresh
from .c01 import G


def family():
    u8, u4, u1, u16 = U(8), U(4), U(1), U(16)
    ts = [U(1), U(2), U(4), U(8), U(16), U(32), BOOL, UNIT,
          TUP(u8), TUP(u8, u8), TUP(u4, u4), TUP(u1, u1), TUP(U(2), U(2)), TUP(u16, u16), TUP(BOOL, BOOL),
          TUP(u8, u8, u8), TUP(u8, TUP(u8, u8)), TUP(TUP(u8, u8), u8), TUP(u8, u8, u8, u8), TUP(TUP(u8, u8), TUP(u8, u8)),
          TUP(u8, TUP(u8, TUP(u8, u8))), TUP(u8, u8, u8, u8, u8), TUP(u8, TUP(TUP(u8, u8), TUP(u8, u8))), TUP(TUP(u8, u8, u8), TUP(u8, u8)),
          ARR(u8, 0), ARR(u8, 1), ARR(u8, 2), ARR(u8, 3), ARR(u8, 4), ARR(u8, 5), ARR(u4, 2), ARR(u1, 2), ARR(BOOL, 2), ARR(u16, 2),
          ARR(ARR(u8, 2), 2), ARR(u1, 8), ARR(U(2), 4),
          OPT(u8), OPT(UNIT), OPT(ARR(u8, 1)), OPT(TUP(u8,)), EITHER(UNIT, u8), EITHER(UNIT, UNIT), EITHER(u8, u8), EITHER(u8, u16), EITHER(u16, u8), EITHER(u8, UNIT),
          LIST(u8, 2), LIST(u8, 4), LIST(u8, 8), TUP(OPT(ARR(u8, 2)), LIST(u8, 2)), TUP(OPT(ARR(u8, 2)), OPT(u8)), TUP(OPT(TUP(u8, u8)), OPT(u8)),
          TUP(OPT(ARR(u8, 4)), LIST(u8, 4)), TUP(OPT(ARR(u8, 4)), TUP(OPT(ARR(u8, 2)), OPT(u8))), LIST(UNIT, 2), OPT(OPT(u8)), EITHER(UNIT, OPT(u8)),
          LIST(BOOL, 4), TUP(OPT(ARR(u1, 2)), LIST(u1, 2))]
    seen, out = set(), []
    for t in ts:
        if t not in seen:
            seen.add(t)
            out.append(t)
    return out


def big_types():
    """types whose structure is compared (no casts generated): larger sizes"""
    u8 = U(8)
    return [U(64), U(128), U(256), ARR(u8, 7), ARR(u8, 8), ARR(u8, 9), ARR(u8, 16), ARR(u8, 17), ARR(u8, 31), ARR(u8, 33), ARR(u8, 64), ARR(u8, 100),
            TUP(*[U(1)] * 6), TUP(*[U(1)] * 7), TUP(*[U(1)] * 9), TUP(*[U(1)] * 13), LIST(u8, 16), LIST(u8, 32), LIST(u8, 64), LIST(u8, 128), LIST(u8, 256), LIST(u8, 512),
            LIST(TUP(u8, OPT(u8)), 16), ARR(LIST(u8, 4), 3), OPT(LIST(ARR(u8, 3), 8))]


def n_values(t, cap=1 << 20):
    k = t[0]
    if k == "u":
        return min(cap, 1 << t[1])
    if k == "bool":
        return 2
    if k in ("tuple", "array"):
        n = 1
        for e in (t[1] if k == "tuple" else [t[1]] * t[2]):
            n = min(cap, n * n_values(e, cap))
        return n
    if k == "option":
        return min(cap, 1 + n_values(t[1], cap))
    if k == "either":
        return min(cap, n_values(t[1], cap) + n_values(t[2], cap))
    if k == "list":
        e = n_values(t[1], cap)
        return min(cap, sum(min(cap, e ** n) for n in range(t[2])))
    raise ValueError(t)


def all_values(t):
    """every value of t as the canonical padded bit pattern of the book layout (python int of width(t) bits)"""
    k = t[0]
    w = width(t)
    if k == "u":
        return range(1 << t[1])
    if k == "bool":
        return range(2)
    if k in ("tuple", "array"):
        out = [0]
        for e in (t[1] if k == "tuple" else [t[1]] * t[2]):
            we = width(e)
            out = [(x << we) | y for x in out for y in all_values(e)]
        return out
    if k == "option":
        return [0] + [(1 << (w - 1)) | y for y in all_values(t[1])]
    if k == "either":
        return [y for y in all_values(t[1])] + [(1 << (w - 1)) | y for y in all_values(t[2])]
    if k == "list":
        we = width(t[1])
        sizes = list_block_sizes(t[2])
        out = []
        for n in range(t[2]):
            # elements fill the present blocks in order, largest block first
            for elems in _tuples(list(all_values(t[1])), n):
                x, i = 0, 0
                for sz in sizes:
                    present = 1 if n & sz else 0
                    x = (x << 1) | present
                    for _ in range(sz):
                        x = (x << we) | (elems[i] if present else 0)
                        i += present
                out.append(x)
        return out
    raise ValueError(t)


def _tuples(vals, n):
    if n == 0:
        return [()]
    return [(v,) + r for v in vals for r in _tuples(vals, n - 1)]


def small_types():
    """types with at most 600 values: every value is laid out, compared with the book and reconstructed"""
    u1, u2, u4, u8 = U(1), U(2), U(4), U(8)
    extra = [OPT(u4), OPT(BOOL), OPT(OPT(OPT(u1))), EITHER(u4, u2), EITHER(OPT(u4), u8), EITHER(BOOL, UNIT), EITHER(EITHER(u2, u2), EITHER(u2, u1)),
             TUP(u1, u2, u4), TUP(OPT(u2), EITHER(u1, u2), BOOL), TUP(u2, u2, u2, u2), TUP(u1, u1, u1, u1, u1), ARR(u2, 3), ARR(BOOL, 5), ARR(OPT(u1), 3),
             ARR(u1, 7), ARR(EITHER(u1, UNIT), 4), LIST(u1, 2), LIST(u1, 4), LIST(u2, 4), LIST(u1, 8), LIST(BOOL, 8), LIST(OPT(u1), 4), LIST(TUP(u1, u1), 4),
             LIST(UNIT, 16), OPT(LIST(u1, 4)), TUP(LIST(u1, 4), u2), EITHER(LIST(u2, 2), ARR(u1, 2)), OPT(TUP(u4, BOOL)), ARR(TUP(u1, OPT(u1)), 2)]
    seen, out = set(), []
    for t in family() + extra:
        if t not in seen and n_values(t) <= 600:
            seen.add(t)
            out.append(t)
    return out


def exhaustive_value_checks():
    """(n_types, n_values, violations): EVERY value of every small type: library bits = book bits, reconstruct gives the value back.
    An enumeration over values (not a solver verdict): the clause 'structural form -> reconstruct returns the same value' is outside
    what Kani can encode (DESIGN 1)."""
    reqs, meta = [], []
    for t in small_types():
        for x in all_values(t):
            reqs.append({"type": ty_str(t), "value": value_text(t, x)})
            meta.append((t, x))
    resp = E.driver_batch("layout", reqs)
    bad, per_type = [], {}
    for (t, x), r in zip(meta, resp):
        w = width(t)
        book = format(x, "0%db" % w) if w else ""
        rec = None
        if not r.get("ok"):
            rec = {"kind": "layout-value", "detail": "library refused the value: %s" % r.get("error")}
        elif book != r["bits"]:
            rec = {"kind": "layout-value", "book_bits": book, "library_bits": r["bits"], "detail": "structural bits of a value differ from the documented layout"}
        elif not r.get("reconstruct_eq", True):
            rec = {"kind": "layout-reconstruct", "detail": "converting the value to its structural form and reconstructing it at its type gives a different value"}
        if rec:
            n = per_type.get(ty_str(t), 0)
            per_type[ty_str(t)] = n + 1
            if n < 2:  # two reports per type are enough
                bad.append(dict(rec, type=ty_str(t), value=value_text(t, x)))
    return len(small_types()), len(reqs), bad


def structure_and_value_checks(seed):
    """returns (n_types, n_values, list of violation records)"""
    rng = random.Random(seed)
    reqs, meta = [], []
    for t in family() + big_types():
        reqs.append({"type": ty_str(t), "structure": True})
        meta.append(("structure", t, None))
        if width(t) <= 4200:
            for k in range(3):
                g = G(random.Random(hash((ty_str(t), k, seed)) & 0xFFFFFFF))
                lit = g.literal(t)
                reqs.append({"type": ty_str(t), "value": Printer().expr(lit)})
                meta.append(("value", t, lit))
    resp = E.driver_batch("layout", reqs)
    bad = []
    nt = nv = 0
    for (kind, t, lit), r in zip(meta, resp):
        if not r.get("ok"):
            bad.append({"kind": "layout-" + kind, "type": ty_str(t), "detail": "library refused: %s" % r.get("error")})
            continue
        if kind == "structure":
            nt += 1
            real = structure_from_json(r["structure"])
            if real != structure(t) or r["width"] != width(t):
                bad.append({"kind": "layout-structure", "type": ty_str(t), "detail": "library structure differs from the book's casting table",
                            "book_width": width(t), "library_width": r["width"]})
        else:
            nv += 1
            T.reset()
            v, _ = Spec(lambda n, ty: None).eval(lit, [[]])
            bits = to_bits(t, v)
            book = format(bits.val, "0%db" % bits.w) if bits is not None else ""
            if bits is not None and bits.op != "c":
                bad.append({"kind": "layout-value", "type": ty_str(t), "detail": "book layout of a constant is not constant (framework bug)"})
            elif book != r["bits"]:
                bad.append({"kind": "layout-value", "type": ty_str(t), "value": r.get("printed"), "book_bits": book, "library_bits": r["bits"],
                            "detail": "structural bits of a value differ from the documented layout"})
            elif not r.get("reconstruct_eq", True):
                bad.append({"kind": "layout-reconstruct", "type": ty_str(t), "value": r.get("printed"),
                            "detail": "converting the value to its structural form and reconstructing it at its type gives a different value"})
    return nt, nv, bad


def cases(tier, seed):
    fam = family()
    out = []
    for s in fam:
        for t in fam:
            same = structure(s) == structure(t)
            prog = Program([], Block([Let("y", t, Cast(Wit("X", s), t))] + observe(Var("y", t), t, "EXP", Fresh("o"))))
            cid = "cast-%s-to-%s" % (ty_str(s).replace(" ", ""), ty_str(t).replace(" ", ""))
            if same:
                out.append(E.Case(cid, prog, tags={"from": ty_str(s), "to": ty_str(t), "expected": "accepted", "seed": seed}, validate=(width(s) > 0)))
            else:
                out.append(E.Case(cid, prog, expect_reject=True, validate=False, debug_modes=(False,),
                                  tags={"from": ty_str(s), "to": ty_str(t), "expected": "rejected", "same_width": width(s) == width(t)}))
    return out


def main():
    tier, seed = suite.tier_seed()
    E.build_driver()
    nt, nv, bad = structure_and_value_checks(seed)
    xt, xv, xbad = exhaustive_value_checks()
    bad += xbad
    cs = cases(tier, seed)

    def extra(results):
        acc = sum(1 for r in results if r["tags"].get("expected") == "accepted" and r["status"] == "held")
        rej = sum(1 for r in results if r["tags"].get("expected") == "rejected" and r["status"] == "rejected_as_expected")
        trap = sum(1 for r in results if r["tags"].get("expected") == "rejected" and r["tags"].get("same_width") and r["status"] == "rejected_as_expected")
        return {"types_in_cast_family": len(family()), "ordered_pairs": len(results), "admissible_casts_proved_bit_preserving": acc,
                "inadmissible_casts_rejected": rej, "of_which_same_width_but_different_structure": trap,
                "type_structures_compared_with_book": nt, "value_layouts_compared_with_book": nv,
                "small_types_with_every_value_laid_out_and_reconstructed": xt, "values_of_small_types": xv, "exhaustive": True}

    return suite.run_property(
        "C07", cs, kani=True, pre_violations=bad, rejection_is_violation=True,
        technique="Kani/CBMC bounded model checking of the layout step (as_node) + SMT (z3 QF_UFBV) proof that every admissible cast of the family preserves all bits + enumeration of cast admissibility and type structures against the book's casting table",
        functions=["array.rs: BTreeSlice::as_node, Partition::{from_slice,as_node} (Kani)", "types.rs: UIntType::{bit_width,from_bit_width,two_n,byte_width} (Kani), StructuralType::from(&ResolvedType) (structure comparison)",
                   "value.rs: StructuralValue::from(&Value) (value layout comparison on samples)", "ast.rs: cast admissibility (TypeCast); compile.rs: cast compiled as a no-op"],
        bounds={"layout_step": "every slice length n <= 300 (shape) / n <= 96 (element order); every list bound 2..64 and every length below it",
                "casts": "all ordered pairs of %d types (depth <= 2, small sizes)" % len(family()), "structures": "%d types incl. arrays up to 100, tuples up to 13, list bounds up to 512" % (len(family()) + len(big_types())),
                "values": "3 seeded values per type; EVERY value of the %d types with at most 600 values (enumeration, also through Value::reconstruct)" % len(small_types())},
        outside=["Value -> StructuralValue -> Value::reconstruct round trip as a universally quantified statement (Kani internal compiler error, DESIGN 1); it is only exercised on the sampled values",
                 "sizes above the stated bounds; fold/unfold's use of as_node through miniscript's generic tree iterators (trusted)"],
        assumptions=["z3 4.8.12 / CBMC 6.11 sound", "book/src/type_casting.md is the layout oracle (simsym/src.py: structure, width, to_bits)"],
        extra_coverage=extra, min_validated=100,
    )
