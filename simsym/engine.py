"""E1 engine: compile with the real compiler, execute the emitted DAG symbolically, evaluate the
source semantics symbolically, let the solver decide equivalence for all witnesses, replay
any counterexample on the real pipeline.
"""
import json, os, subprocess, sys, time, random, hashlib, traceback
import multiprocessing as mp

from . import terms as T
from . import machine as M
from . import src as S

VERIF = os.path.dirname(os.path.dirname(os.path.abspath(__file__)))
DRIVER_DIR = os.path.join(VERIF, "driver")
DRIVER_BIN = os.environ.get("VERIF_DRIVER_BIN") or os.path.join(DRIVER_DIR, "target", "release", "verif-driver")  # override: experiments only
REPO = "/repo"


class Broken(Exception):
    """the machinery (not the code under test) is broken or inconclusive -> exit 2"""


def build_driver(quiet=True):
    """(re)build the driver against /repo's current working tree"""
    lock = os.path.join(DRIVER_DIR, "Cargo.lock")
    if not os.path.exists(lock):
        import shutil
        shutil.copy(os.path.join(REPO, "Cargo.lock"), lock)
    env = dict(os.environ, CARGO_NET_OFFLINE="true")
    t0 = time.time()
    r = subprocess.run(["cargo", "build", "--release", "--quiet"], cwd=DRIVER_DIR, env=env,
                       capture_output=True, text=True)
    if r.returncode != 0:
        sys.stderr.write(r.stdout[-4000:] + r.stderr[-8000:])
        raise Broken("driver build failed (does /repo still compile?)")
    return time.time() - t0


class DriverProc:
    def __init__(self, mode):
        self.mode = mode
        self.p = subprocess.Popen([DRIVER_BIN, mode], stdin=subprocess.PIPE, stdout=subprocess.PIPE,
                                  text=True, bufsize=1)

    def ask(self, req):
        self.p.stdin.write(json.dumps(req) + "\n")
        self.p.stdin.flush()
        line = self.p.stdout.readline()
        if not line:
            raise Broken("driver (%s) died on %s" % (self.mode, json.dumps(req)[:300]))
        return json.loads(line)

    def close(self):
        try:
            self.p.stdin.close()
            self.p.wait(timeout=5)
        except Exception:
            self.p.kill()


def driver_batch(mode, reqs):
    """one-shot batch call"""
    inp = "".join(json.dumps(r) + "\n" for r in reqs)
    r = subprocess.run([DRIVER_BIN, mode], input=inp, capture_output=True, text=True)
    out = [json.loads(l) for l in r.stdout.splitlines() if l.strip()]
    if len(out) != len(reqs):
        raise Broken("driver %s answered %d of %d requests: %s" % (mode, len(out), len(reqs), r.stderr[-2000:]))
    return out


# ----------------------------------------------------------------------------------------
# worker state

_W = {}


def _worker_init(solver_kind, timeout_s):
    _W["dump"] = DriverProc("dump")
    _W["run"] = DriverProc("run")
    _W["solver"] = T.Solver(solver_kind, timeout_s)
    _W["kind"] = solver_kind
    # thorough tier: a second solver (cvc5) re-decides every non-trivial `unsat`; a disagreement is fatal
    _W["solver2"] = T.Solver("cvc5", 60) if os.environ.get("VERIF_TIER") == "thorough" and solver_kind != "cvc5" else None


def _second_opinion(goal, res):
    """cvc5 must not find a model where z3 answered unsat (unknown / timeout of cvc5 is recorded, not fatal)"""
    s2 = _W.get("solver2")
    if s2 is None or goal.op == "c":
        return
    r2, _ = s2.check(goal, want_model=False)
    res["cvc5_" + r2] = res.get("cvc5_" + r2, 0) + 1
    if r2 == "sat":
        raise Broken("z3 says unsat, cvc5 says sat on the same query")


def _bits(v, w):
    return format(v, "0%db" % w) if w else ""


_COMMENT = __import__("re").compile(r"/\*.*?\*/|//[^\n]*", __import__("re").S)


def _nows(s):
    """text of a call without comments and whitespace (what the program printer would have written)"""
    return "".join(_COMMENT.sub("", s).split())


class Case:
    """One translation-validation obligation."""

    def __init__(self, cid, prog, args=None, interpret=True, debug_modes=(False, True), mut=None,
                 validate=True, tags=None, text=None, expect_reject=False, cross=None, note=None,
                 wit_fixed=None, check_markers=False, expect_params=None, expect_instantiate_error=False, extra_points=0,
                 custom=None):
        self.cid = cid
        self.prog = prog            # S.Program (specification side)
        self.args = args or {}      # name -> (ty, const expression AST)
        self.interpret = interpret  # False: every jet uninterpreted (quantifies over jet meanings)
        self.debug_modes = tuple(debug_modes)
        self.mut = mut              # canary: deliberately wrong specification
        self.validate = validate    # run reachability + concrete cross-validation points
        self.tags = tags or {}
        self.text = text            # override of the printed text (layout variants)
        self.expect_reject = expect_reject
        self.cross = cross          # optional second program text that must be equivalent (C12, C17)
        self.note = note
        self.raw_args = {}          # text-only cases: arguments as {"NAME": {"type":..., "value":...}}
        self.wit_fixed = wit_fixed or {}  # name -> (list type, length): list witness of a fixed length
        self.check_markers = check_markers  # C14: compare debug markers with the program's tracked calls
        self.expect_params = expect_params  # C12: {name: type string} that parameters() must report exactly
        self.expect_instantiate_error = expect_instantiate_error  # C12: instantiate must refuse these arguments
        self.extra_points = extra_points  # additional concrete cross-validation points
        self.custom = custom        # module-level function(case, res, solver) -> result dict: an obligation of its own shape


def _arg_request(case):
    pr = S.Printer(case.prog.aliases)
    return {n: {"type": S.ty_str(t), "value": pr.expr(e)} for n, (t, e) in case.args.items()}


def _spec_args(case):
    sp = S.Spec(lambda n, t: None)
    out = {}
    for n, (t, e) in case.args.items():
        v, f = sp.eval(e, [[]])
        out[n] = v
    return out


def _witness_provider(machine, dumped, problems):
    decl = dumped.get("witness", {})

    def provide(name, ty):
        w = S.width(ty)
        if name in machine.wit:
            bits = machine.wit[name]
            bw = bits.w if bits is not None else 0
            if bw != w:
                problems.append("witness %s: compiled width %d, documented layout width %d" % (name, bw, w))
                raise S.SpecError("layout width mismatch")
            return S.from_bits(ty, bits)
        # witness not reached by the DAG evaluation (dead code under constant control)
        if w == 0:
            return S.from_bits(ty, None)
        raw = T.var("w_" + name, w)
        v = S.from_bits(ty, raw)
        canon = S.to_bits(ty, v)
        machine.wit[name] = canon
        return S.from_bits(ty, canon)

    return provide


def _model_witness_bits(machine, dumped, model):
    """canonical witness bit strings under a solver model"""
    out = {}
    for name, info in dumped.get("witness", {}).items():
        t = machine.wit.get(name)
        w = info["w"]
        if w == 0:
            out[name] = {"bits": ""}
            continue
        if t is None:
            out[name] = {"bits": "0" * w}
            continue
        v = T.evaluate(t, model)
        out[name] = {"bits": _bits(v, w)}
    return out


def _random_model(machine, rng, boundary=False):
    model = {}
    for name, raw in machine.wit_raw.items():
        if boundary:
            model[raw.val] = rng.choice([0, (1 << raw.w) - 1, 1, 1 << (raw.w - 1)])
        else:
            model[raw.val] = rng.getrandbits(raw.w)
    return model


def run_real(case, text, debug, witness_bits):
    req = {"text": text, "debug": debug, "args": _arg_request(case), "witness": witness_bits}
    return _W["run"].ask(req)


RAW_SAMPLE = int(os.environ.get("VERIF_RAW_SAMPLE", "7"))  # every n-th small case is re-decided on un-normalised terms


def _raw_recheck(case, text, res):
    """Re-decide the plain-build equivalence with the rewriting rules switched off (terms.RAW): the solver sees the
    un-normalised goal.  `sat` here while the normalised goal was unsat means a rewriting rule is unsound."""
    if case.prog is None or case.mut or case.wit_fixed or res.get("nodes", 0) > 260 or res.get("evals", 0) > 6000:
        return
    h = int(hashlib.sha256(case.cid.encode()).hexdigest()[:6], 16)
    sample = RAW_SAMPLE if os.environ.get("VERIF_TIER") != "thorough" else max(1, RAW_SAMPLE // 3)
    if sample <= 0 or h % sample:
        return
    T.reset()
    T.RAW[0] = True
    try:
        d = _W["dump"].ask({"text": text, "debug": False, "args": _arg_request(case)})
        if not d.get("ok"):
            return
        m = M.Machine(M.Program(d), interpret=case.interpret)
        f_impl = m.run()
        if m.evals > 20000:
            return
        spec = S.Spec(_witness_provider(m, d, []), args=_spec_args(case), interpret=case.interpret)
        f_spec = spec.run(case.prog)
        goal = T.xor(f_impl, f_spec)
        r, model = _W["solver"].check(goal, want_model=False, timeout_s=30)
        res["raw_" + r] = res.get("raw_" + r, 0) + 1
        if goal.op == "c":
            res["raw_trivial"] = res.get("raw_trivial", 0) + 1
        if r == "unsat":
            _second_opinion(goal, res)
        if r == "sat":
            raise Broken("un-normalised goal is satisfiable although the normalised goal was refuted: a rewriting rule of terms.py is unsound (case %s)" % case.cid)
    finally:
        T.RAW[0] = False
        T.reset()


def check_case(case):
    """returns a result dict; never raises for expected situations"""
    t_start = time.time()
    res = {"cid": case.cid, "status": "held", "queries": 0, "solver_s": 0.0, "evals": 0, "nodes": 0,
           "tags": case.tags, "validated": 0, "validated_fail": 0, "validated_ok": 0, "detail": None,
           "can_fail": None, "can_succeed": None, "mut": case.mut, "terms": 0, "witness_bits": 0}
    s0 = _W["solver"].time
    try:
        T.reset()
        T.RAW[0] = False
        res.update(_check_case(case, res))
        if res["status"] == "held" and res.get("text"):
            _raw_recheck(case, res["text"], res)
    except M.Inconclusive as e:
        res["status"] = "inconclusive"
        res["detail"] = "machine: %s" % e
    except Broken as e:
        res["status"] = "broken"
        res["detail"] = str(e)
    except Exception as e:  # a bug in the framework must never look like a pass
        res["status"] = "broken"
        res["detail"] = "exception: %s\n%s" % (e, traceback.format_exc()[-1500:])
    res["wall_s"] = time.time() - t_start
    res["solver_s"] = _W["solver"].time - s0
    return res


def case_budget_s():
    return int(os.environ.get("VERIF_CASE_BUDGET_S", "420"))


class _Budgeted:
    """solver front with a wall-clock budget per case: once it is used up the remaining queries are answered
    `unknown` (inconclusive), so one restructured program cannot hold a whole check hostage"""

    def __init__(self, solver):
        self.s = solver
        self.budget = case_budget_s()
        self.deadline = time.time() + self.budget

    def check(self, goal, want_model=True, timeout_s=None, abstract=False):
        left = self.deadline - time.time()
        if goal.op != "c" and left < 3:
            return "unknown", "case budget of %d s used up" % self.budget
        limit = min(timeout_s or self.s.timeout_s, max(3, int(left)))
        r = self.s.check(goal, want_model=want_model, timeout_s=limit, abstract=abstract)
        if r[0] == "unknown" and goal.op != "c" and self.s.kind.startswith("z3") and limit >= 30:
            # z3's run time on these goals varies by an order of magnitude with the order in which the terms are
            # emitted; before giving up, the other solver gets the same goal (same budget rules)
            left = self.deadline - time.time()
            if left > 10:
                alt = _W.get("alt")
                if alt is None:
                    try:
                        alt = _W["alt"] = T.Solver("cvc5", timeout_s=self.s.timeout_s)
                    except Exception:
                        alt = _W["alt"] = False
                if alt:
                    r2 = alt.check(goal, want_model=want_model, timeout_s=min(limit, max(3, int(left))), abstract=False)
                    if r2[0] != "unknown":
                        _W["alt_used"] = _W.get("alt_used", 0) + 1
                        return r2
        return r


def _check_case(case, res):
    solver = _Budgeted(_W["solver"])
    if case.custom is not None:
        return case.custom(case, res, solver)
    text = case.text if case.text is not None else S.program_text(case.prog)
    res["text"] = text
    out = {}
    spec_args = _spec_args(case) if case.prog is not None else {}
    areq = case.raw_args if case.prog is None else _arg_request(case)
    rng = random.Random(int(hashlib.sha256((case.cid + str(case.tags.get("seed", 0))).encode()).hexdigest()[:8], 16))
    fails_by_mode = {}
    machines = {}
    for dbg in case.debug_modes:
        d = _W["dump"].ask({"text": text, "debug": dbg, "args": areq})
        if case.expect_params is not None and "params" in d:
            got = {k: "".join(v.split()) for k, v in d["params"].items()}
            want = {k: "".join(v.split()) for k, v in case.expect_params.items()}
            if got != want:
                return {"status": "violation", "kind": "parameters", "detail": "parameters() reports %s, the program text has %s" % (got, want)}
        if case.expect_instantiate_error:
            if not d.get("ok") and d.get("stage") == "instantiate":
                return {"status": "rejected_as_expected", "detail": d.get("error", "")[:200]}
            return {"status": "accepted_unexpectedly" if d.get("ok") else "rejected",
                    "detail": "instantiate should have refused the arguments; got stage=%s %s" % (d.get("stage"), (d.get("error") or "")[:200])}
        if not d.get("ok"):
            if case.expect_reject and d.get("stage") in ("parse", "analyze"):
                return {"status": "rejected_as_expected", "detail": d.get("error", "")[:300]}
            return {"status": "rejected", "detail": "%s: %s" % (d.get("stage"), (d.get("error") or "")[:600])}
        if case.expect_reject:
            return {"status": "accepted_unexpectedly", "detail": "front end accepted a program the book rejects"}
        prog = M.Program(d)
        rootn = d["nodes"][d["root"]]
        if d["types"][rootn["s"]]["w"] or d["types"][rootn["t"]]["w"]:
            # what `commit()` would turn into a program that is not of type 1 -> 1 (the library only `expect`s it)
            return {"status": "rejected", "detail": "compile: the emitted program has a %d-bit input and a %d-bit output instead of type 1 -> 1" % (
                d["types"][rootn["s"]]["w"], d["types"][rootn["t"]]["w"])}
        fixed, fixed_raw = {}, {}
        for name, (lty, k) in case.wit_fixed.items():
            elems = []
            for i in range(k):
                raw = T.var("w_%s#%d" % (name, i), S.width(lty[1]))
                fixed_raw["%s#%d" % (name, i)] = raw
                elems.append(S.from_bits(lty[1], S.to_bits(lty[1], S.from_bits(lty[1], raw))))
            fixed[name] = S.to_bits(lty, S.list_value(lty, elems))
        m = M.Machine(prog, witness_terms=fixed, interpret=case.interpret)
        m.wit_raw.update(fixed_raw)
        f_impl = m.run()
        machines[dbg] = (m, d)
        fails_by_mode[dbg] = f_impl
        want_jet = case.tags.get("jet") if isinstance(case.tags, dict) else None
        if want_jet and not case.expect_reject and want_jet not in [j for j, _, _ in m.jet_inputs]:
            return {"status": "violation", "kind": "jet-missing",
                    "detail": "the call of jet::%s is not part of the emitted program (no execution path reaches a `%s` jet node)" % (want_jet, want_jet)}
        res["nodes"] = max(res["nodes"], len(d["nodes"]))
        res["evals"] += m.evals
        res["witness_bits"] = sum(i["w"] for i in d.get("witness", {}).values())
        if dbg:
            res["markers"] = sorted(set(n["cmr"] for n in d["nodes"] if "marker" in n))
            res["tracked"] = len(d.get("tracked", []))
            res["marker_kinds"] = sorted(set((n["marker"]["kind"].split("(")[0], n["marker"]["text"]) for n in d["nodes"] if "marker" in n))
            res["taps_nonconst"] = sum(1 for (_, _, tag, _) in m.taps if not (tag.op == "c" and tag.val == 0))
            nows = _nows
            dag_markers = set((n["marker"]["kind"].split("(")[0], nows(n["marker"]["text"])) for n in d["nodes"] if "marker" in n)
            res["dag_markers"] = sorted(dag_markers)
            res["unmarked_assertl"] = sum(1 for n in d["nodes"] if n["k"] == "assertl" and "marker" not in n and not n.get("failcmr"))
            res["marker_cmrs_distinct"] = len(set(n["cmr"] for n in d["nodes"] if "marker" in n))
            res["marker_nodes"] = sum(1 for n in d["nodes"] if "marker" in n)
            res["tracked_table"] = sorted(set((t["kind"].split("(")[0], nows(t["text"])) for t in d.get("tracked", [])))
            # what each marker wraps: assertl(drop body): the body must fit the kind the marker resolves to, and one
            # marker CMR must wrap one kind of body only (two call sites sharing a marker show up here)
            bodies = {}
            mismatch = []
            for n in d["nodes"]:
                if "marker" not in n:
                    continue
                dn = d["nodes"][n["l"]]
                body = d["nodes"][dn["l"]] if dn["k"] == "drop" and "l" in dn else dn
                shape = body["k"] + (":" + body["jet"] if body["k"] == "jet" else "")
                bodies.setdefault(n["cmr"], set()).add(shape)
                kind = n["marker"]["kind"].split("(")[0]
                ok = {"Jet": body["k"] == "jet" and body.get("jet") != "verify", "Assert": body["k"] == "jet" and body.get("jet") == "verify",
                      "Panic": body["k"] == "fail", "Debug": body["k"] == "iden", "Unwrap": body["k"] == "comp",
                      "UnwrapLeft": body["k"] == "comp", "UnwrapRight": body["k"] == "comp"}.get(kind, True)
                if not ok:
                    mismatch.append((kind, n["marker"]["text"][:60], shape))
            res["marker_body_mismatch"] = mismatch[:5]
            res["marker_shared"] = [c for c, sh in bodies.items() if len(sh) > 1][:5]
            res["tracked_cmrs_distinct"] = len(set(t["cmr"] for t in d.get("tracked", []))) == len(d.get("tracked", []))
    m0, d0 = machines[case.debug_modes[0]]
    # debug-symbol bookkeeping (structural facts about the concrete artefact)
    if True in machines and case.check_markers:
        if res.get("unmarked_assertl"):
            return {"status": "violation", "kind": "markers", "detail": "%d assertl node(s) whose hidden CMR is neither a fail node nor a debug symbol" % res["unmarked_assertl"]}
        if res.get("taps_nonconst"):
            return {"status": "violation", "kind": "markers", "detail": "a debug marker is entered with a tag that is not the constant `false`"}
        if not res.get("tracked_cmrs_distinct", True):
            return {"status": "violation", "kind": "markers", "detail": "two tracked call sites share a marker CMR"}
        if res.get("marker_shared"):
            return {"status": "violation", "kind": "markers", "detail": "one marker CMR wraps different kinds of call bodies (two call sites share a marker): %s" % res["marker_shared"][:2]}
        if res.get("marker_body_mismatch"):
            return {"status": "violation", "kind": "markers", "detail": "a marker resolves to a kind that does not fit the call it wraps: %s" % res["marker_body_mismatch"][:2]}
        if case.prog is not None:
            expected = sorted(S.tracked_calls(case.prog))
            if [list(x) for x in expected] != [list(x) for x in res["dag_markers"]]:
                missing = [x for x in expected if list(x) not in [list(y) for y in res["dag_markers"]]]
                extra = [x for x in res["dag_markers"] if tuple(x) not in set(expected)]
                return {"status": "violation", "kind": "markers",
                        "detail": "markers in the debug build do not resolve to exactly the tracked calls of the program: missing %s, unexpected %s" % (missing[:3], extra[:3])}
        else:
            src_nows = "".join(text.split())
            scanned = S.scan_tracked_calls(text)
            table = set(tuple(x) for x in res.get("tracked_table", []))
            if scanned != table:
                return {"status": "violation", "kind": "markers",
                        "detail": "debug_symbols() does not list exactly the tracked calls of the source text: missing %s, unexpected %s" % (
                            sorted(scanned - table)[:3], sorted(table - scanned)[:3])}
            head = {"Assert": "assert!(", "Panic": "panic!(", "Jet": "jet::", "Unwrap": "unwrap(", "UnwrapLeft": "unwrap_left::<",
                    "UnwrapRight": "unwrap_right::<"}
            for kind, t in res["dag_markers"]:
                probe = t if kind != "Debug" else "dbg!(" + t + ")"
                if not t or not t.startswith(head.get(kind, "")) or (kind != "Debug" and not t.endswith(")")):
                    return {"status": "violation", "kind": "markers", "detail": "marker text %r is not the text of a %s call" % (t, kind)}
                if probe not in src_nows:
                    return {"status": "violation", "kind": "markers", "detail": "marker text %r (%s) is not a call of the source file" % (t, kind)}
    if case.prog is None:
        # text-only case (shipped examples): behaviour neutrality of the debug build only
        m1, d1 = machines[True]
        for name, t in m1.wit.items():
            t0 = m0.wit.get(name)
            if t0 is not None and t0 is not t:
                raise Broken("witness %s has different canonical terms in the two builds" % name)
        res["terms"] = T.n_terms()
        goal = T.xor(fails_by_mode[False], fails_by_mode[True])
        if goal.op == "c":
            res["closed_by_rewriting"] = res.get("closed_by_rewriting", 0) + 1
        r, model = solver.check(goal, abstract=True)
        res["queries"] += 1
        if r == "unknown":
            return {"status": "inconclusive", "detail": "solver: %s" % str(model)[:300]}
        if r == "sat":
            return {"status": "unconfirmed", "detail": "debug and plain build differ for some witness / jet meaning", "kind": "neutrality"}
        return {"status": "held"}
    # specification (shares the witness variables of the first machine)
    problems = []
    spec = S.Spec(_witness_provider(m0, d0, problems), args=spec_args, interpret=case.interpret, mutate=case.mut)
    try:
        f_spec = spec.run(case.prog)
    except S.SpecError as e:
        if problems:
            return {"status": "violation", "detail": "; ".join(problems), "replay": None, "kind": "layout"}
        raise Broken("spec evaluator: %s" % e)
    # second machines must use the same witness terms
    for dbg in case.debug_modes[1:]:
        m, d = machines[dbg]
        for name, t in m.wit.items():
            t0 = m0.wit.get(name)
            if t0 is not None and t0 is not t:
                raise Broken("witness %s has different canonical terms in the two builds" % name)
    res["terms"] = T.n_terms()
    # deciding queries
    for dbg in case.debug_modes:
        m, d = machines[dbg]
        goal = T.xor(fails_by_mode[dbg], f_spec)
        if goal.op == "c":
            res["closed_by_rewriting"] = res.get("closed_by_rewriting", 0) + 1
        r, model = solver.check(goal, abstract=True)
        res["queries"] += 1
        if r == "unknown":
            return {"status": "inconclusive", "detail": "solver: %s" % str(model)[:300]}
        if r == "sat":
            if case.mut:
                return {"status": "canary_caught"}
            return _confirm(case, text, dbg, m, d, model, f_spec, fails_by_mode[dbg], res)
        _second_opinion(goal, res)
    if case.mut:
        return {"status": "canary_missed", "detail": "mutated specification %s was not distinguished" % case.mut}
    if len(case.debug_modes) == 2:
        # behaviour neutrality of debug symbols follows from the two equalities; assert it directly too
        goal = T.xor(fails_by_mode[False], fails_by_mode[True])
        if goal.op == "c":
            res["closed_by_rewriting"] = res.get("closed_by_rewriting", 0) + 1
        r, model = solver.check(goal, abstract=True)
        res["queries"] += 1
        if r != "unsat":
            return {"status": "inconclusive" if r == "unknown" else "violation", "detail": "debug/plain differ", "kind": "neutrality"}
    # C14, last clause: what a debug marker receives is the source-level value of the call's argument
    mv_ctx = None
    if True in machines and case.check_markers and case.prog is not None:
        r, mv_ctx = _marker_values(case, text, machines[True], spec, f_spec, solver, res, rng)
        if r is not None:
            return r
    # vacuity witnesses + concrete cross-validation against the real pipeline
    if case.validate:
        dbg = case.debug_modes[-1]
        m, d = machines[dbg]
        f_impl = fails_by_mode[dbg]
        points = []
        # Reachability witnesses.  First try the cheap way: fix every witness except the "expected
        # value" ones (EXP*) to random constants, which folds most of the term, and let the solver
        # pick the rest; fall back to the full query (short timeout) if that does not produce both
        # a failing and a succeeding run.
        found = {True: None, False: None}
        for attempt in range(3):
            base = _random_model(m, rng, boundary=(attempt == 2))
            partial = {k: v for k, v in base.items() if not k.startswith("w_EXP")}
            g = T.substitute(f_impl, partial)
            for want_fail in (True, False):
                if found[want_fail] is not None:
                    continue
                r, mod = solver.check(g if want_fail else T.not_(g))
                res["queries"] += 1
                if r == "sat":
                    full = dict(base)
                    full.update(mod)
                    found[want_fail] = full
            if found[True] is not None and found[False] is not None:
                break
        for want_fail in (True, False):
            if found[want_fail] is None:
                r, mod = solver.check(f_impl if want_fail else T.not_(f_impl), timeout_s=20)
                res["queries"] += 1
                if r == "sat":
                    found[want_fail] = mod
                elif r == "unsat":
                    found[want_fail] = False
        res["can_fail"] = None if found[True] is None else bool(found[True])
        res["can_succeed"] = None if found[False] is None else (found[False] is not False)
        if found[True]:
            points.append((found[True], True))
        if found[False]:
            points.append((found[False], False))
        points.append((_random_model(m, rng), None))
        # extra concrete points (used by C13 to compare the interpreted jet models with the real C jets):
        # random and boundary arguments; the expected-value witness is set so that half of the runs succeed
        for k in range(case.extra_points):
            base = _random_model(m, rng, boundary=(k % 3 == 2))
            if k % 2 == 0:
                g = T.substitute(f_impl, {kk: vv for kk, vv in base.items() if not kk.startswith("w_EXP")})
                r, mod = solver.check(T.not_(g), timeout_s=10)
                if r == "sat":
                    base.update(mod)
            points.append((base, None))
        for model, expect_fail in points:
            try:
                concrete_fail = bool(T.evaluate(f_impl, model))
            except KeyError:
                break  # uninterpreted jets: no concrete meaning, cannot cross-validate
            if expect_fail is not None and concrete_fail != expect_fail:
                raise Broken("model does not satisfy its own query")
            wb = _model_witness_bits(m, d, model)
            real = run_real(case, text, dbg, wb)
            # The solver has just proved machine == specification for all inputs; a concrete run of the
            # real pipeline (satisfy -> encode -> decode -> Bit Machine) that disagrees is therefore a
            # disagreement between the real code and the source semantics, shown on the real code.
            real_fail = (not real.get("ok")) or (not real["success"])
            if real.get("stage") in ("compile", "witness", "args", "request"):
                raise Broken("real pipeline could not be driven: %s: %s" % (real.get("stage"), real.get("error")))
            if real_fail != concrete_fail:
                rec = {"property_case": case.cid, "text": text, "debug": dbg, "args": _arg_request(case), "witness": wb,
                       "spec_verdict": "fail" if concrete_fail else "success", "real": real, "tags": case.tags}
                return {"status": "violation", "kind": "pipeline", "replay_record": rec,
                        "detail": "source semantics and symbolic execution of the emitted DAG: %s; real pipeline: %s%s" % (
                            rec["spec_verdict"], "fail" if real_fail else "success",
                            "" if real.get("ok") else " (stopped at %s: %s)" % (real.get("stage"), str(real.get("error"))[:120]))}
            if not real.get("ok"):
                res.setdefault("pipeline_stops", []).append(real.get("stage"))
                continue
            if not (real["cmr_commit"] == real["cmr_redeem"] == real["cmr_decoded"]):
                res.setdefault("cmr_mismatch", []).append(case.cid)
            res["validated"] += 1
            if real["success"]:
                res["validated_ok"] += 1
            else:
                res["validated_fail"] += 1
    return {"status": "held"}


VALUE_KINDS = ("Debug", "UnwrapLeft", "UnwrapRight")  # the kinds whose marker input TrackedCall::map_value reconstructs


def _marker_values(case, text, md, spec, f_spec, solver, res, rng):
    """Every marker of a value-carrying kind (dbg!, unwrap_left, unwrap_right) that a successful run reaches receives
    exactly the book-layout bits of the source-level value of the call's argument (as some evaluation of that call
    site in the source semantics computes it).  Decided for all witnesses; returns (result or None, context)."""
    m, d = md
    if getattr(m, "tap_overflow", False):
        res["marker_values_skipped"] = "too many marker entries"
        return None, None
    taps = m.tap_conditions()
    pr = S.Printer(case.prog.aliases)
    nows = _nows
    by_site = {}
    for kind, e, aty, bits in spec.calls:
        if kind in VALUE_KINDS:
            by_site.setdefault((kind, nows(pr.expr(e.e if kind == "Debug" else e))), []).append((aty, bits))
    entries = []
    bad = []
    for key, (marker, args, reach) in taps.items():
        kind = marker["kind"].split("(")[0]
        if kind not in VALUE_KINDS:
            continue
        site = (kind, nows(marker["text"]))
        recs = by_site.get(site, [])
        aw = args.w if args is not None else 0
        entries.append((key, site, args, reach, recs))
        if any((b is args) for _, b in recs):
            continue
        differs = T.true()
        for _, b in recs:
            bw = b.w if b is not None else 0
            if bw == aw and aw:
                differs = T.and_(differs, T.not_(T.eq(args, b)))
            elif bw == aw:
                differs = T.false()
        bad.append((key, T.and_(reach, differs)))
    res["marker_value_entries"] = len(entries)
    if not entries:
        return None, None
    ctx = {"entries": entries, "d": d, "m": m}
    goal = T.false()
    for _, g in bad:
        goal = T.or_(goal, g)
    goal = T.and_(T.not_(f_spec), goal)
    if goal.op == "c":
        res["closed_by_rewriting"] = res.get("closed_by_rewriting", 0) + 1
    r, model = solver.check(goal, abstract=False)
    res["queries"] += 1
    res["marker_value_queries"] = res.get("marker_value_queries", 0) + 1
    if r == "unknown":
        return {"status": "inconclusive", "detail": "marker values: solver: %s" % str(model)[:300]}, None
    if r == "unsat":
        _second_opinion(goal, res)
        # concrete part: successful runs (random witnesses completed by the solver) through the real map_value
        for attempt in range(2):
            base = _random_model(m, rng, boundary=(attempt == 1))
            g = T.substitute(f_spec, {k: v for k, v in base.items() if not k.startswith("w_EXP")})
            rr, mod = solver.check(T.not_(g), timeout_s=10)
            res["queries"] += 1
            if rr != "sat":
                continue
            model = dict(base)
            model.update(mod)
            try:
                if T.evaluate(f_spec, model):
                    continue
            except KeyError:
                break
            real = run_real(case, text, True, _model_witness_bits(m, d, model))
            if not real.get("ok") or not real.get("success"):
                continue  # verdict disagreements are reported by the cross-validation of the behaviour families
            v = _marker_reconstruct(case, text, ctx, model, res)
            if v is not None:
                return v, None
        return None, ctx
    # counterexample: find the entry, evaluate it concretely on the emitted DAG, and put the value through the real
    # TrackedCall::map_value; a violation is reported only if the real reconstruction differs from every source-level
    # value the call site computes under this witness
    try:
        for key, g in bad:
            if not T.evaluate(g, model):
                continue
            marker, args, reach = taps[key]
            kind = marker["kind"].split("(")[0]
            site = (kind, nows(marker["text"]))
            recs = by_site.get(site, [])
            got = T.evaluate(args, model) if args is not None else 0
            aw = args.w if args is not None else 0
            expected = []
            for aty, b in recs:
                bv = T.evaluate(b, model) if b is not None else 0
                expected.append({"type": S.ty_str(aty), "value": S.value_text(aty, bv), "bits": format(bv, "0%db" % S.width(aty)) if S.width(aty) else ""})
            wb = _model_witness_bits(m, d, model)
            req = {"op": "mapvalue", "text": text, "args": _arg_request(case), "cmr": d["nodes"][key[0]]["cmr"],
                   "bits": format(got, "0%db" % aw) if aw else ""}
            real = _W["run"].ask(req)
            rec = {"property_case": case.cid, "kind": "marker_value", "text": text, "args": _arg_request(case), "witness": wb,
                   "marker": marker, "request": req, "source_values": expected, "real": real, "tags": case.tags}
            if real.get("ok") and real.get("value") is not None:
                # compare through the real parser: does the reconstructed value equal one of the source-level values?
                for ex in expected:
                    rr = _W["run"].ask(dict(req, expect=ex["value"]))
                    if rr.get("expect_eq"):
                        raise Broken("marker-value counterexample does not reproduce: the real reconstruction %s equals the source value" % real.get("value"))
            return {"status": "violation", "kind": "marker_value", "replay_record": rec,
                    "detail": "the marker of %s `%s` receives %s (real map_value: %s) while the source-level argument is %s" % (
                        kind, marker["text"][:60], req["bits"], real.get("value") if real.get("ok") else real.get("error"),
                        [e["value"] for e in expected][:3])}, None
    except KeyError:
        return {"status": "unconfirmed", "detail": "marker-value counterexample depends on an uninterpreted jet meaning"}, None
    raise Broken("marker-value model does not satisfy its own query")


def _marker_reconstruct(case, text, ctx, model, res):
    """concrete part of the same clause: at a cross-validated successful run, the value each reached dbg!/unwrap_left/
    unwrap_right marker receives is reconstructed by the REAL TrackedCall::map_value and must equal the value that the
    book layout reads from those bits at the call's source-level argument type"""
    m, d = ctx["m"], ctx["d"]
    done = 0
    for key, site, args, reach, recs in ctx["entries"]:
        if done >= 6 or not recs:
            break
        try:
            if not T.evaluate(reach, model):
                continue
            got = T.evaluate(args, model) if args is not None else 0
        except KeyError:
            return None
        aty = recs[0][0]
        aw = args.w if args is not None else 0
        if S.width(aty) != aw:
            continue  # a width disagreement is reported by the symbolic query
        req = {"op": "mapvalue", "text": text, "args": _arg_request(case), "cmr": d["nodes"][key[0]]["cmr"],
               "bits": format(got, "0%db" % aw) if aw else "", "expect": S.value_text(aty, got)}
        real = _W["run"].ask(req)
        done += 1
        res["marker_reconstructions"] = res.get("marker_reconstructions", 0) + 1
        if not real.get("ok") or real.get("expect_eq") is not True:
            rec = {"property_case": case.cid, "kind": "marker_reconstruct", "text": text, "args": _arg_request(case),
                   "witness": _model_witness_bits(m, d, model), "request": req, "real": real, "tags": case.tags}
            return {"status": "violation", "kind": "marker_reconstruct", "replay_record": rec,
                    "detail": "map_value of %s `%s` on bits %s gives %s, the source-level value is %s" % (
                        site[0], site[1][:60], req["bits"], real.get("value") if real.get("ok") else "%s: %s" % (real.get("stage"), real.get("error")), req["expect"])}
    return None


def _confirm(case, text, dbg, m, d, model, f_spec, f_impl, res):
    """a solver counterexample: replay on the real pipeline before calling it a violation"""
    wb = _model_witness_bits(m, d, model)
    try:
        spec_fail = bool(T.evaluate(f_spec, model))
        impl_fail = bool(T.evaluate(f_impl, model))
    except KeyError:
        return {"status": "unconfirmed", "detail": "counterexample depends on an uninterpreted jet meaning",
                "witness": wb, "debug": dbg}
    if spec_fail == impl_fail:
        raise Broken("solver model does not separate the two sides")
    real = run_real(case, text, dbg, wb)
    rec = {"property_case": case.cid, "text": text, "debug": dbg, "args": _arg_request(case), "witness": wb,
           "spec_verdict": "fail" if spec_fail else "success", "real": real, "tags": case.tags}
    if not real.get("ok"):
        return {"status": "unconfirmed", "detail": "real pipeline failed before execution at %s: %s" %
                (real.get("stage"), real.get("error")), "replay_record": rec}
    real_fail = not real["success"]
    if real_fail == spec_fail:
        raise Broken("non-reproducing counterexample (encoder disagrees with the real Bit Machine): %s" % json.dumps(rec)[:1500])
    return {"status": "violation", "detail": "source semantics: %s, real run: %s" %
            (rec["spec_verdict"], "fail" if real_fail else "success"), "replay_record": rec, "kind": "behaviour"}


# ----------------------------------------------------------------------------------------
# suite runner


def run_cases(cases, jobs=None, solver_kind="z3", timeout_s=120, progress=None):
    jobs = jobs or int(os.environ.get("VERIF_JOBS") or min(16, os.cpu_count() or 4))
    jobs = max(1, min(jobs, len(cases)))
    t0 = time.time()
    results = []
    if jobs == 1:
        _worker_init(solver_kind, timeout_s)
        for c in cases:
            results.append(check_case(c))
    else:
        ctx = mp.get_context("fork")
        with ctx.Pool(jobs, initializer=_worker_init, initargs=(solver_kind, timeout_s)) as pool:
            prog_path = os.path.join(VERIF, "work", "progress.jsonl")
            os.makedirs(os.path.dirname(prog_path), exist_ok=True)
            prog = open(prog_path, "w")
            for i, r in enumerate(pool.imap_unordered(check_case, cases, chunksize=max(1, min(8, len(cases) // (jobs * 4) or 1)))):
                results.append(r)
                prog.write(json.dumps({"t": round(time.time() - t0, 1), "cid": r["cid"], "status": r["status"], "wall_s": round(r["wall_s"], 1),
                                       "solver_s": round(r["solver_s"], 1), "queries": r["queries"]}) + "\n")
                prog.flush()
                if progress and (i + 1) % progress == 0:
                    sys.stderr.write("  .. %d/%d cases, %.0fs\n" % (i + 1, len(cases), time.time() - t0))
    return results, time.time() - t0
