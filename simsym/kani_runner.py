"""E2 runner: Kani proof harnesses of /verif/kani against /repo (path dependency, rebuilt every run).

Discipline: a harness counts as discharged only if Kani reports SUCCESSFUL with the unwinding assertions on
and every kani::cover! satisfied (reachability witness); FAILED checks are replayed natively
(concrete playback against the real code) before they are reported as a VIOLATION; a failed unwinding
assertion, an unsatisfied cover, a timeout, an out-of-memory or an internal error is INCONCLUSIVE (exit 2).
"""
import json, os, re, shutil, subprocess, sys, time, resource
from concurrent.futures import ThreadPoolExecutor

VERIF = os.path.dirname(os.path.dirname(os.path.abspath(__file__)))
KANI_DIR = os.path.join(VERIF, "kani")
WORK = os.path.join(VERIF, "work")

Q, T = "quick", "thorough"

# name -> (properties, tier, timeout seconds, uses stubs)
HARNESSES = {}


def _h(name, props, tier=Q, timeout=600, stubs=False):
    HARNESSES[name] = dict(props=props, tier=tier, timeout=timeout, stubs=stubs)


for ty, lens in (("u1", (1, 2, 3)), ("u2", (1, 2, 3)), ("u4", (1, 2, 3, 4)), ("u8", (1, 2, 3, 4)), ("u16", (4, 5, 6)),
                 ("u32", (9, 10, 11)), ("u64", (19, 20, 21)), ("u128", (38, 39, 40))):
    for ln in lens:
        # C06 (panic-freedom) takes the longest string per type; C11 (values) all three lengths
        _h("c11_dec_%s_len%d" % (ty, ln), ["C11", "C06"] if ln == lens[-1] else ["C11"], tier=T if ty == "u128" else Q, timeout=1500)
_h("c11_no_digit_decimal_any_type", ["C11", "C06"])
_h("c11_no_digit_binary_any_type", ["C11", "C06"])
for ln in (1, 2, 3, 4, 8, 9, 16, 32, 64):
    _h("c11_bin_len%d" % ln, ["C11", "C06"] if ln in (1, 8, 9, 32, 64) else ["C11"], tier=Q if ln <= 32 else T, timeout=1500, stubs=True)
# 16 hex digits (u64): CBMC runs to the 12 GB cap after ~22 min (thorough run, 16 cores busy) - outside the claim;
# the 64-bit hex boundary is covered by the E1 literal family (boundary literals of every width) instead
for ln in (0, 1, 2, 3, 4, 8):
    _h("c11_hex_anyint_len%d" % ln, ["C11", "C06"], tier=Q if ln <= 4 else T, timeout=1500)
for n in (0, 1, 2, 3, 4, 8, 16, 32):
    _h("c11_bytes_value_n%d" % n, ["C11"], timeout=900)
for n, ln in ((0, 0), (1, 0), (1, 1), (1, 3)):
    # rejecting paths only: the accepting path builds Value::array over Arc<[Value]> and runs CBMC out of memory
    _h("c11_hex_bytes_n%d_len%d" % (n, ln), ["C11", "C06"], timeout=900)
_h("c11_hex_at_other_type", ["C11", "C06"])
for nm in ("empty", "len1", "len3", "len5", "len5_leading_zero"):
    _h("c11_u256_dec_" + nm, ["C11", "C06"], stubs=True, timeout=1500, tier=T if nm == "len5_leading_zero" else Q)
_h("c11_print_parse_u8", ["C11"], timeout=1200)
_h("c07_btree_slice_shape_n_le_300", ["C07"])
_h("c07_btree_slice_order_n_le_96", ["C07"], timeout=1200)
_h("c07_partition_step_bound_le_64", ["C07"], timeout=1500)
_h("c07_uint_type_widths", ["C07"])
_h("c06_pow2_constructors_total", ["C06"])
_h("c14_span_roundtrip_len3", ["C14", "C06"], timeout=1200)
_h("c14_span_roundtrip_len4", ["C14", "C06"], tier=T, timeout=3000)
_h("c06_span_to_slice_total", ["C06"], timeout=1200)
# `Span::from(&str)` (the whole-text span of the type / value / module error paths): str::lines() over symbolic bytes runs
# CBMC out of memory even for 0..3 bytes; with the byte-loop model of Lines::next / next_back (stubs.rs) it takes 20-45 s
_h("c06_span_from_str_len3", ["C06"], stubs=True)
_h("c06_span_from_str_len5", ["C06"], stubs=True)


def select(prop, tier):
    return sorted(n for n, h in HARNESSES.items() if prop in h["props"] and (tier == T or h["tier"] == Q))


def _limits():
    try:
        import ctypes, signal
        ctypes.CDLL("libc.so.6").prctl(1, signal.SIGKILL)
        gb = int(os.environ.get("VERIF_KANI_MEM_GB", "12"))
        resource.setrlimit(resource.RLIMIT_AS, (gb << 30, gb << 30))
    except Exception:
        pass


def prepare(jobs):
    """build the harness crate once (against /repo's current tree) and clone the build for the workers"""
    env = dict(os.environ, CARGO_NET_OFFLINE="true")
    lock = os.path.join(KANI_DIR, "Cargo.lock")
    if not os.path.exists(lock):
        shutil.copy("/repo/Cargo.lock", lock)
    t0 = time.time()
    base = os.path.join(KANI_DIR, "target-w0")
    r = subprocess.run(["cargo", "kani", "-Z", "stubbing", "--only-codegen", "--target-dir", base], cwd=KANI_DIR, env=env,
                       capture_output=True, text=True)
    if r.returncode != 0:
        sys.stderr.write(r.stdout[-3000:] + r.stderr[-6000:])
        raise RuntimeError("kani build failed (does /repo still compile?)")
    dirs = [base]
    for i in range(1, jobs):
        d = os.path.join(KANI_DIR, "target-w%d" % i)
        subprocess.run(["rsync", "-a", "--delete", base + "/", d + "/"], check=True)
        dirs.append(d)
    return dirs, time.time() - t0


def parse_output(out):
    res = {"status": "error"}
    m = re.search(r"VERIFICATION:- (\w+)", out)
    if m:
        res["status"] = "success" if m.group(1) == "SUCCESSFUL" else "failed"
    m = re.search(r"\*\* (\d+) of (\d+) failed", out)
    if m:
        res["checks_failed"], res["checks"] = int(m.group(1)), int(m.group(2))
    m = re.search(r"\*\* (\d+) of (\d+) cover properties satisfied", out)
    if m:
        res["covers_satisfied"], res["covers"] = int(m.group(1)), int(m.group(2))
    m = re.search(r"Verification Time: ([0-9.]+)s", out)
    if m:
        res["cbmc_s"] = float(m.group(1))
    failed = re.findall(r"Failed Checks: (.*)", out)
    res["failed_checks"] = failed[:10]
    if any("unwinding assertion" in f for f in failed):
        res["status"] = "unwind"
    if "Status: ERROR" in out or "CBMC failed" in out or "out of memory" in out.lower():
        if res["status"] != "success":
            res["status"] = "error"
    if res["status"] == "failed" and not failed:
        res["status"] = "error"  # FAILED without a failed check: the back end died (memory limit), not a counterexample
    return res


def run_one(name, target_dir, extra=None, cwd=KANI_DIR):
    h = HARNESSES[name]
    env = dict(os.environ, CARGO_NET_OFFLINE="true")
    cmd = ["cargo", "kani", "-Z", "stubbing", "--harness", "harness::" + name, "--exact", "--output-format", "terse", "--target-dir", target_dir] + (extra or [])
    t0 = time.time()
    try:
        gb = int(os.environ.get("VERIF_KANI_MEM_GB", "12"))
        cmd = ["setpriv", "--pdeathsig", "KILL", "prlimit", "--as=%d" % (gb << 30)] + cmd
        r = subprocess.run(cmd, cwd=cwd, env=env, capture_output=True, text=True, timeout=h["timeout"])
        out = r.stdout + r.stderr
        res = parse_output(out)
    except subprocess.TimeoutExpired as e:
        out = (e.stdout or b"").decode("utf8", "replace") if isinstance(e.stdout, bytes) else (e.stdout or "")
        res = {"status": "timeout"}
        subprocess.run(["pkill", "-f", "cbmc.*%s" % name], capture_output=True)
    res["name"] = name
    res["wall_s"] = round(time.time() - t0, 2)
    res["tail"] = out[-1500:]
    return res


def run_all(names, jobs=8):
    jobs = max(1, min(jobs, len(names)))
    dirs, build_s = prepare(jobs)
    free = list(dirs)
    results = []

    def work(name):
        d = free.pop()
        try:
            return run_one(name, d)
        finally:
            free.append(d)

    # longest first
    order = sorted(names, key=lambda n: -HARNESSES[n]["timeout"])
    with ThreadPoolExecutor(max_workers=jobs) as ex:
        for r in ex.map(work, order):
            results.append(r)
            sys.stderr.write("  kani %-40s %-8s %6.1fs\n" % (r["name"], r["status"], r["wall_s"]))
    return results, build_s


def replay(name):
    """concrete playback of a failing harness against the real code; returns (reproduced, record)"""
    try:
        return _replay(name)
    except subprocess.TimeoutExpired as e:
        return False, {"harness": name, "note": "concrete playback timed out: %s" % str(e)[:200]}
    except Exception as e:  # a broken replay must end as inconclusive, never as a crash
        return False, {"harness": name, "note": "concrete playback failed: %s" % str(e)[:300]}


def _replay(name):
    scratch = os.path.join(WORK, "kani-replay-" + name)
    shutil.rmtree(scratch, ignore_errors=True)
    os.makedirs(scratch)
    shutil.copy(os.path.join(KANI_DIR, "Cargo.toml"), scratch)
    shutil.copy(os.path.join(KANI_DIR, "Cargo.lock"), scratch)
    shutil.copytree(os.path.join(KANI_DIR, "src"), os.path.join(scratch, "src"))
    env = dict(os.environ, CARGO_NET_OFFLINE="true")
    tdir = os.path.join(scratch, "target")
    r = subprocess.run(["cargo", "kani", "-Z", "stubbing", "-Z", "concrete-playback", "--concrete-playback=print", "--harness", "harness::" + name, "--exact",
                        "--target-dir", tdir], cwd=scratch, env=env, capture_output=True, text=True,
                       timeout=HARNESSES[name]["timeout"] + 300)
    out0 = r.stdout + r.stderr
    # the harnesses are generated by macros, so `inplace` playback would paste the test into the macro body;
    # take the printed unit tests and put them at the end of `mod harness` of the scratch copy instead
    tests = re.findall(r"(#\[test\]\s*fn (kani_concrete_playback_\w+)\(\) \{.*?\n\})", out0, re.S)
    rec = {"harness": name, "kani_output_tail": out0[-1500:], "playback_tests": [t[1] for t in tests]}
    if not tests:
        rec["note"] = "kani printed no concrete playback test"
        shutil.rmtree(scratch, ignore_errors=True)
        return False, rec
    lib = os.path.join(scratch, "src", "lib.rs")
    src = open(lib).read().rstrip()
    assert src.endswith("}")
    seen = set()
    body = ""
    for code, tname in tests:
        if tname not in seen:
            seen.add(tname)
            body += "\n    " + code.replace("\n", "\n    ") + "\n"
    open(lib, "w").write(src[:-1] + body + "}\n")
    rec["playback_test_source"] = body[:3000]
    p = subprocess.run(["cargo", "kani", "playback", "-Z", "concrete-playback", "--", "kani_concrete_playback_" + name], cwd=scratch, env=env,
                       capture_output=True, text=True, timeout=1800)
    out = p.stdout + p.stderr
    rec["native_output_tail"] = out[-2500:]
    reproduced = p.returncode != 0 and "panicked at" in out and "test result: FAILED" in out
    rec["reproduced_on_real_code"] = reproduced
    shutil.rmtree(scratch, ignore_errors=True)
    return reproduced, rec
