//! ASCII stubs for the `str` iteration primitives that explode under CBMC when the bytes are symbolic
//! (symbolic UTF-8 width makes every later pointer symbolic).  Each stub assumes `byte < 128`; that is
//! sound for literals because the grammar (`dec_literal`, `bin_literal`, `hex_literal`) only lets ASCII
//! digits and `_` through.  Every harness that uses them lists them in the evidence.

pub fn chars_next<'a>(it: &mut core::str::Chars<'a>) -> Option<char>
where
    'a: 'a,
{
    let s: &'a str = it.as_str();
    let bytes = s.as_bytes();
    if bytes.is_empty() {
        return None;
    }
    let b = bytes[0];
    kani::assume(b < 128);
    // Safety: one ASCII byte is a char boundary
    *it = unsafe { core::str::from_utf8_unchecked(&bytes[1..]) }.chars();
    Some(b as char)
}

pub fn chars_count<'a>(it: core::str::Chars<'a>) -> usize
where
    'a: 'a,
{
    it.as_str().len()
}

pub fn trim_start_zeros<'a, P>(s: &'a str, _pattern: P) -> &'a str {
    let bytes = s.as_bytes();
    let mut i = 0;
    while i < bytes.len() && bytes[i] == b'0' {
        i += 1;
    }
    // Safety: ASCII prefix removed
    unsafe { core::str::from_utf8_unchecked(&bytes[i..]) }
}

/// `str::lines()` over symbolic bytes runs CBMC out of memory (SplitInclusive + the word-at-a-time memchr of
/// CharSearcher).  These two stubs replace the iterator steps by byte loops with the documented meaning of `Lines`:
/// segments end at '\n' (inclusive), a trailing empty segment is not yielded, then one "\n" and - only if a "\n" was
/// stripped - one "\r" are removed.  The remaining input is read through the (unstable) `Lines::remainder`.
pub fn lines_next<'a>(it: &mut core::str::Lines<'a>) -> Option<&'a str>
where
    'a: 'a,
{
    let rem: &'a str = match it.remainder() {
        Some(r) => r,
        None => return None,
    };
    let bytes = rem.as_bytes();
    if bytes.is_empty() {
        return None;
    }
    let mut i = 0;
    while i < bytes.len() && bytes[i] != b'\n' {
        i += 1;
    }
    // Safety: '\n' is ASCII, so i and i + 1 are char boundaries
    let (line, rest) = if i < bytes.len() {
        (&bytes[..i], &bytes[i + 1..])
    } else {
        (bytes, &bytes[bytes.len()..])
    };
    let had_newline = i < bytes.len();
    *it = unsafe { core::str::from_utf8_unchecked(rest) }.lines();
    let line = if had_newline && !line.is_empty() && line[line.len() - 1] == b'\r' {
        &line[..line.len() - 1]
    } else {
        line
    };
    Some(unsafe { core::str::from_utf8_unchecked(line) })
}

pub fn lines_next_back<'a>(it: &mut core::str::Lines<'a>) -> Option<&'a str>
where
    'a: 'a,
{
    let rem: &'a str = match it.remainder() {
        Some(r) => r,
        None => return None,
    };
    let bytes = rem.as_bytes();
    if bytes.is_empty() {
        return None;
    }
    let had_newline = bytes[bytes.len() - 1] == b'\n';
    let end = if had_newline { bytes.len() - 1 } else { bytes.len() };
    let mut start = end;
    while start > 0 && bytes[start - 1] != b'\n' {
        start -= 1;
    }
    *it = unsafe { core::str::from_utf8_unchecked(&bytes[..start]) }.lines();
    let line = &bytes[start..end];
    let line = if had_newline && !line.is_empty() && line[line.len() - 1] == b'\r' {
        &line[..line.len() - 1]
    } else {
        line
    };
    Some(unsafe { core::str::from_utf8_unchecked(line) })
}
