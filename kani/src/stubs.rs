//! ASCII stubs for the `str` iteration primitives that explode under CBMC when the bytes are symbolic
//! (symbolic UTF-8 width makes every later pointer symbolic).  Each stub assumes `byte < 128`; that is
//! sound for literals because the grammar (`dec_literal`, `bin_literal`, `hex_literal`) only lets ASCII
//! digits and `_` through.  Every harness that uses them lists them in the evidence.

pub fn chars_next<'a>(it: &mut core::str::Chars<'a>) -> Option<char>
where
    'a: 'a,
{
    let s: &'a str = it.as_str();
    let bytes = s.as_bytes();
    if bytes.is_empty() {
        return None;
    }
    let b = bytes[0];
    kani::assume(b < 128);
    // Safety: one ASCII byte is a char boundary
    *it = unsafe { core::str::from_utf8_unchecked(&bytes[1..]) }.chars();
    Some(b as char)
}

pub fn chars_count<'a>(it: core::str::Chars<'a>) -> usize
where
    'a: 'a,
{
    it.as_str().len()
}

pub fn trim_start_zeros<'a, P>(s: &'a str, _pattern: P) -> &'a str {
    let bytes = s.as_bytes();
    let mut i = 0;
    while i < bytes.len() && bytes[i] == b'0' {
        i += 1;
    }
    // Safety: ASCII prefix removed
    unsafe { core::str::from_utf8_unchecked(&bytes[i..]) }
}
