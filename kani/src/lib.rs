//! Kani proof harnesses over the literal, layout and span kernels of simfony (E2).
//!
//! Rules (learnt the hard way, see DESIGN.md 3): shapes concrete, contents symbolic; every result that
//! may own an Error / Value / Arc is inspected by reference and then `mem::forget`-ed; no unbounded loop
//! in harness code; a `kani::cover!` on the success and on the error path of every harness.
#![allow(dead_code)]
#![allow(clippy::all)]
#![cfg_attr(kani, feature(str_lines_remainder))]

#[cfg(kani)]
mod stubs;

#[cfg(kani)]
mod harness {
    use core::mem::forget;
    use simfony::array::{BTreeSlice, Partition};
    use simfony::error::{Position, Span};
    use simfony::num::{NonZeroPow2Usize, Pow2Usize, U256};
    use miniscript::iter::TreeLike as _;
    use simfony::str::{Binary, Decimal, Hexadecimal};
    use simfony::types::{ResolvedType, TypeConstructible, UIntType};
    use simfony::value::{UIntValue, Value, ValueConstructible};

    const ALL_UINT: [UIntType; 9] = [
        UIntType::U1,
        UIntType::U2,
        UIntType::U4,
        UIntType::U8,
        UIntType::U16,
        UIntType::U32,
        UIntType::U64,
        UIntType::U128,
        UIntType::U256,
    ];

    fn any_uint_type() -> UIntType {
        let i: usize = kani::any();
        kani::assume(i < 9);
        ALL_UINT[i]
    }

    fn bits_of(ty: UIntType) -> usize {
        match ty {
            UIntType::U1 => 1,
            UIntType::U2 => 2,
            UIntType::U4 => 4,
            UIntType::U8 => 8,
            UIntType::U16 => 16,
            UIntType::U32 => 32,
            UIntType::U64 => 64,
            UIntType::U128 => 128,
            UIntType::U256 => 256,
        }
    }

    /// numeric value of an integer value of at most 128 bits
    fn as_u128(v: &UIntValue) -> Option<u128> {
        match v {
            UIntValue::U1(n) | UIntValue::U2(n) | UIntValue::U4(n) | UIntValue::U8(n) => Some(*n as u128),
            UIntValue::U16(n) => Some(*n as u128),
            UIntValue::U32(n) => Some(*n as u128),
            UIntValue::U64(n) => Some(*n as u128),
            UIntValue::U128(n) => Some(*n),
            UIntValue::U256(_) => None,
        }
    }

    fn ascii_str(buf: &[u8]) -> &str {
        // Safety: callers constrain every byte to ASCII
        unsafe { core::str::from_utf8_unchecked(buf) }
    }

    // ---------------------------------------------------------------------------------------------
    // C11 / C06: decimal literals at uN, N <= 128.  All digit strings of length LEN.

    fn decimal_case<const LEN: usize>(ty: UIntType) {
        let buf: [u8; LEN] = kani::any();
        let mut reference: u128 = 0;
        let mut overflow = false;
        let mut i = 0;
        while i < LEN {
            kani::assume(buf[i] >= b'0' && buf[i] <= b'9');
            match reference.checked_mul(10).and_then(|x| x.checked_add((buf[i] - b'0') as u128)) {
                Some(x) => reference = x,
                None => overflow = true,
            }
            i += 1;
        }
        let dec = Decimal::from_str_unchecked(ascii_str(&buf));
        let res = UIntValue::parse_decimal(&dec, ty);
        let n = bits_of(ty);
        let fits = !overflow && (n == 128 || reference < (1u128 << n));
        match &res {
            Ok(v) => {
                assert!(fits, "accepted a decimal literal that does not fit the type");
                assert!(v.get_type() == ty, "value has the wrong type");
                assert!(as_u128(v) == Some(reference), "decimal literal denotes the wrong value");
                kani::cover!(true, "accepting path reached");
            }
            Err(_) => {
                assert!(!fits, "rejected a decimal literal that fits the type");
                kani::cover!(true, "rejecting path reached");
            }
        }
        forget(res);
        forget(dec);
    }

    macro_rules! decimal_harness {
        ($name:ident, $ty:expr, $len:expr, $unwind:expr) => {
            #[kani::proof]
            #[kani::unwind($unwind)]
            fn $name() {
                decimal_case::<$len>($ty);
            }
        };
    }

    decimal_harness!(c11_dec_u1_len1, UIntType::U1, 1, 4);
    decimal_harness!(c11_dec_u1_len2, UIntType::U1, 2, 5);
    decimal_harness!(c11_dec_u1_len3, UIntType::U1, 3, 6);
    decimal_harness!(c11_dec_u2_len1, UIntType::U2, 1, 4);
    decimal_harness!(c11_dec_u2_len2, UIntType::U2, 2, 5);
    decimal_harness!(c11_dec_u2_len3, UIntType::U2, 3, 6);
    decimal_harness!(c11_dec_u4_len1, UIntType::U4, 1, 4);
    decimal_harness!(c11_dec_u4_len2, UIntType::U4, 2, 5);
    decimal_harness!(c11_dec_u4_len3, UIntType::U4, 3, 6);
    decimal_harness!(c11_dec_u4_len4, UIntType::U4, 4, 7);
    decimal_harness!(c11_dec_u8_len1, UIntType::U8, 1, 4);
    decimal_harness!(c11_dec_u8_len2, UIntType::U8, 2, 5);
    decimal_harness!(c11_dec_u8_len3, UIntType::U8, 3, 6);
    decimal_harness!(c11_dec_u8_len4, UIntType::U8, 4, 7);
    decimal_harness!(c11_dec_u16_len4, UIntType::U16, 4, 7);
    decimal_harness!(c11_dec_u16_len5, UIntType::U16, 5, 8);
    decimal_harness!(c11_dec_u16_len6, UIntType::U16, 6, 9);
    decimal_harness!(c11_dec_u32_len9, UIntType::U32, 9, 12);
    decimal_harness!(c11_dec_u32_len10, UIntType::U32, 10, 13);
    decimal_harness!(c11_dec_u32_len11, UIntType::U32, 11, 14);
    decimal_harness!(c11_dec_u64_len19, UIntType::U64, 19, 22);
    decimal_harness!(c11_dec_u64_len20, UIntType::U64, 20, 23);
    decimal_harness!(c11_dec_u64_len21, UIntType::U64, 21, 24);
    decimal_harness!(c11_dec_u128_len38, UIntType::U128, 38, 41);
    decimal_harness!(c11_dec_u128_len39, UIntType::U128, 39, 42);
    decimal_harness!(c11_dec_u128_len40, UIntType::U128, 40, 43);

    /// a literal without any digit is rejected at every integer type (decimal / binary)
    #[kani::proof]
    #[kani::unwind(4)]
    fn c11_no_digit_decimal_any_type() {
        let ty = any_uint_type();
        let dec = Decimal::from_str_unchecked("");
        let res = UIntValue::parse_decimal(&dec, ty);
        assert!(res.is_err(), "a decimal literal without digits was accepted");
        kani::cover!(res.is_err());
        forget(res);
        forget(dec);
    }

    #[kani::proof]
    #[kani::unwind(4)]
    fn c11_no_digit_binary_any_type() {
        let ty = any_uint_type();
        let bin = Binary::from_str_unchecked("");
        let res = UIntValue::parse_binary(&bin, ty);
        assert!(res.is_err(), "a binary literal without digits was accepted");
        kani::cover!(res.is_err());
        forget(res);
        forget(bin);
    }

    // ---------------------------------------------------------------------------------------------
    // C11 / C06: binary literals.  LEN symbolic bits against every integer type.

    fn binary_case<const LEN: usize>() {
        let ty = any_uint_type();
        let buf: [u8; LEN] = kani::any();
        let mut reference: u128 = 0;
        let mut i = 0;
        while i < LEN {
            kani::assume(buf[i] == b'0' || buf[i] == b'1');
            if LEN <= 128 {
                reference = (reference << 1) | ((buf[i] - b'0') as u128);
            }
            i += 1;
        }
        let bin = Binary::from_str_unchecked(ascii_str(&buf));
        let res = UIntValue::parse_binary(&bin, ty);
        match &res {
            Ok(v) => {
                assert!(bits_of(ty) == LEN, "binary literal accepted with a digit count different from the width");
                assert!(v.get_type() == ty);
                if LEN <= 128 {
                    assert!(as_u128(v) == Some(reference), "binary literal denotes the wrong value");
                }
                kani::cover!(true, "accepting path reached");
            }
            Err(_) => {
                assert!(bits_of(ty) != LEN, "binary literal with exactly N digits rejected");
                kani::cover!(true, "rejecting path reached");
            }
        }
        forget(res);
        forget(bin);
    }

    macro_rules! binary_harness {
        ($name:ident, $len:expr, $unwind:expr) => {
            #[kani::proof]
            #[kani::unwind($unwind)]
            #[kani::stub(<core::str::Chars as core::iter::Iterator>::next, crate::stubs::chars_next)]
            fn $name() {
                binary_case::<$len>();
            }
        };
    }

    binary_harness!(c11_bin_len1, 1, 10);
    binary_harness!(c11_bin_len2, 2, 10);
    binary_harness!(c11_bin_len3, 3, 10);
    binary_harness!(c11_bin_len4, 4, 10);
    binary_harness!(c11_bin_len5, 5, 10);
    binary_harness!(c11_bin_len7, 7, 10);
    binary_harness!(c11_bin_len8, 8, 11);
    binary_harness!(c11_bin_len9, 9, 12);
    binary_harness!(c11_bin_len15, 15, 18);
    binary_harness!(c11_bin_len16, 16, 19);
    binary_harness!(c11_bin_len17, 17, 20);
    binary_harness!(c11_bin_len32, 32, 35);
    binary_harness!(c11_bin_len64, 64, 67);

    // ---------------------------------------------------------------------------------------------
    // C11 / C06: hexadecimal literals at integer types and byte arrays.

    fn hex_digit_value(c: u8) -> u8 {
        if c >= b'0' && c <= b'9' {
            c - b'0'
        } else if c >= b'a' && c <= b'f' {
            c - b'a' + 10
        } else {
            c - b'A' + 10
        }
    }

    fn assume_hex(c: u8) {
        kani::assume((c >= b'0' && c <= b'9') || (c >= b'a' && c <= b'f') || (c >= b'A' && c <= b'F'));
    }

    fn hex_int_case<const LEN: usize>() {
        let ty = any_uint_type();
        let buf: [u8; LEN] = kani::any();
        let mut reference: u128 = 0;
        let mut i = 0;
        while i < LEN {
            assume_hex(buf[i]);
            if LEN <= 32 {
                reference = (reference << 4) | (hex_digit_value(buf[i]) as u128);
            }
            i += 1;
        }
        let hex = Hexadecimal::from_str_unchecked(ascii_str(&buf));
        let rty = ResolvedType::from(ty);
        let res = Value::parse_hexadecimal(&hex, &rty);
        let n = bits_of(ty);
        match &res {
            Ok(v) => {
                assert!(n >= 8 && LEN * 4 == n, "hex literal accepted with a digit count that does not match the width");
                assert!(v.is_of_type(&rty));
                kani::cover!(true, "accepting path reached");
            }
            Err(_) => {
                assert!(!(n >= 8 && LEN * 4 == n), "hex literal with N/4 digits rejected");
                kani::cover!(true, "rejecting path reached");
            }
        }
        forget(res);
        forget(rty);
        forget(hex);
        let _ = reference;
    }

    macro_rules! hex_int_harness {
        ($name:ident, $len:expr, $unwind:expr) => {
            #[kani::proof]
            #[kani::unwind($unwind)]
            fn $name() {
                hex_int_case::<$len>();
            }
        };
    }

    hex_int_harness!(c11_hex_anyint_len0, 0, 6);
    hex_int_harness!(c11_hex_anyint_len1, 1, 6);
    hex_int_harness!(c11_hex_anyint_len2, 2, 7);
    hex_int_harness!(c11_hex_anyint_len3, 3, 8);
    hex_int_harness!(c11_hex_anyint_len4, 4, 9);
    hex_int_harness!(c11_hex_anyint_len8, 8, 13);
    hex_int_harness!(c11_hex_anyint_len16, 16, 21);

    /// big-endian bytes -> integer (the value step of hex literals), every supported byte length
    fn bytes_value_case<const N: usize>() {
        let bytes: [u8; N] = kani::any();
        let mut reference: u128 = 0;
        let mut i = 0;
        while i < N {
            if N <= 16 {
                reference = (reference << 8) | bytes[i] as u128;
            }
            i += 1;
        }
        let res = UIntValue::try_from(&bytes[..]);
        match &res {
            Ok(v) => {
                assert!(N == 1 || N == 2 || N == 4 || N == 8 || N == 16 || N == 32);
                assert!(bits_of(v.get_type()) == 8 * N, "bytes converted to an integer of the wrong width");
                if N <= 16 {
                    assert!(as_u128(v) == Some(reference), "bytes are not read big-endian");
                } else if let UIntValue::U256(x) = v {
                    let back = x.to_byte_array();
                    let mut j = 0;
                    while j < 32 {
                        assert!(back[j] == bytes[j]);
                        j += 1;
                    }
                }
                kani::cover!(true, "accepting path reached");
            }
            Err(_) => {
                assert!(!(N == 1 || N == 2 || N == 4 || N == 8 || N == 16 || N == 32));
                kani::cover!(true, "rejecting path reached");
            }
        }
        forget(res);
    }

    macro_rules! bytes_value_harness {
        ($name:ident, $n:expr, $unwind:expr) => {
            #[kani::proof]
            #[kani::unwind($unwind)]
            fn $name() {
                bytes_value_case::<$n>();
            }
        };
    }

    bytes_value_harness!(c11_bytes_value_n0, 0, 4);
    bytes_value_harness!(c11_bytes_value_n1, 1, 4);
    bytes_value_harness!(c11_bytes_value_n2, 2, 5);
    bytes_value_harness!(c11_bytes_value_n3, 3, 6);
    bytes_value_harness!(c11_bytes_value_n4, 4, 7);
    bytes_value_harness!(c11_bytes_value_n8, 8, 11);
    bytes_value_harness!(c11_bytes_value_n16, 16, 19);
    bytes_value_harness!(c11_bytes_value_n32, 32, 35);

    /// acceptance of hex literals at byte arrays: exactly 2n digits, n > 0 digits at all
    fn hex_bytes_case<const N: usize, const LEN: usize>() {
        let buf: [u8; LEN] = kani::any();
        let mut i = 0;
        while i < LEN {
            assume_hex(buf[i]);
            i += 1;
        }
        let hex = Hexadecimal::from_str_unchecked(ascii_str(&buf));
        let rty = ResolvedType::array(ResolvedType::from(UIntType::U8), N);
        let res = Value::parse_hexadecimal(&hex, &rty);
        match &res {
            Ok(v) => {
                assert!(LEN == 2 * N && LEN > 0, "byte-array hex literal accepted with the wrong digit count");
                assert!(v.is_of_type(&rty));
                kani::cover!(true, "accepting path reached");
            }
            Err(_) => {
                assert!(!(LEN == 2 * N && LEN > 0), "byte-array hex literal with 2n digits rejected");
                kani::cover!(true, "rejecting path reached");
            }
        }
        forget(res);
        forget(rty);
        forget(hex);
    }

    macro_rules! hex_bytes_harness {
        ($name:ident, $n:expr, $len:expr, $unwind:expr) => {
            #[kani::proof]
            #[kani::unwind($unwind)]
            fn $name() {
                hex_bytes_case::<$n, $len>();
            }
        };
    }

    hex_bytes_harness!(c11_hex_bytes_n0_len0, 0, 0, 4);
    hex_bytes_harness!(c11_hex_bytes_n0_len2, 0, 2, 6);
    hex_bytes_harness!(c11_hex_bytes_n1_len0, 1, 0, 4);
    hex_bytes_harness!(c11_hex_bytes_n1_len1, 1, 1, 5);
    hex_bytes_harness!(c11_hex_bytes_n1_len2, 1, 2, 6);
    hex_bytes_harness!(c11_hex_bytes_n1_len3, 1, 3, 7);
    hex_bytes_harness!(c11_hex_bytes_n2_len2, 2, 2, 6);
    hex_bytes_harness!(c11_hex_bytes_n2_len4, 2, 4, 8);
    hex_bytes_harness!(c11_hex_bytes_n2_len6, 2, 6, 10);

    /// a hex literal at a type that is neither an integer nor a byte array is rejected
    #[kani::proof]
    #[kani::unwind(6)]
    fn c11_hex_at_other_type() {
        let buf: [u8; 2] = kani::any();
        assume_hex(buf[0]);
        assume_hex(buf[1]);
        let hex = Hexadecimal::from_str_unchecked(ascii_str(&buf));
        let rty = ResolvedType::boolean();
        let res = Value::parse_hexadecimal(&hex, &rty);
        assert!(res.is_err());
        kani::cover!(res.is_err());
        forget(res);
        forget(rty);
        forget(hex);
    }

    // ---------------------------------------------------------------------------------------------
    // C11: decimal literals at u256 (hand-written long arithmetic in num.rs; ASCII stubs for str::chars)

    fn u256_case<const LEN: usize>(first: u8) {
        // first digit concrete (keeps trim_start_matches concrete), the rest symbolic
        let mut buf = [b'0'; LEN];
        if LEN > 0 {
            buf[0] = first;
        }
        let mut reference: u128 = if LEN > 0 { (first - b'0') as u128 } else { 0 };
        let mut i = 1;
        while i < LEN {
            let d: u8 = kani::any();
            kani::assume(d >= b'0' && d <= b'9');
            buf[i] = d;
            reference = reference * 10 + (d - b'0') as u128;
            i += 1;
        }
        let res: Result<U256, _> = ascii_str(&buf).parse::<U256>();
        match &res {
            Ok(v) => {
                assert!(LEN > 0, "the empty string was accepted as a u256 literal");
                let bytes = v.to_byte_array();
                let mut expected = [0u8; 32];
                let be = reference.to_be_bytes();
                let mut j = 0;
                while j < 16 {
                    expected[16 + j] = be[j];
                    j += 1;
                }
                let mut j = 0;
                while j < 32 {
                    assert!(bytes[j] == expected[j], "u256 decimal literal denotes the wrong value");
                    j += 1;
                }
                kani::cover!(true, "accepting path reached");
            }
            Err(_) => {
                assert!(LEN == 0, "a u256 decimal literal of at most 38 digits was rejected");
                kani::cover!(true, "rejecting path reached");
            }
        }
        forget(res);
    }

    macro_rules! u256_harness {
        ($name:ident, $len:expr, $first:expr, $unwind:expr) => {
            #[kani::proof]
            #[kani::unwind($unwind)]
            #[kani::stub(<core::str::Chars as core::iter::Iterator>::next, crate::stubs::chars_next)]
            #[kani::stub(<core::str::Chars as core::iter::Iterator>::count, crate::stubs::chars_count)]
            #[kani::stub(str::trim_start_matches, crate::stubs::trim_start_zeros)]
            fn $name() {
                u256_case::<$len>($first);
            }
        };
    }

    u256_harness!(c11_u256_dec_empty, 0, b'0', 36);
    u256_harness!(c11_u256_dec_len1, 1, b'7', 36);
    u256_harness!(c11_u256_dec_len3, 3, b'9', 36);
    u256_harness!(c11_u256_dec_len5, 5, b'1', 36);
    u256_harness!(c11_u256_dec_len5_leading_zero, 5, b'0', 36);

    // ---------------------------------------------------------------------------------------------
    // C11: the text the library prints for an integer parses back to it (u8: through core::fmt)

    #[kani::proof]
    #[kani::unwind(6)]
    fn c11_print_parse_u8() {
        let x: u8 = kani::any();
        let s = UIntValue::U8(x).to_string();
        let dec = Decimal::from_str_unchecked(&s);
        let res = UIntValue::parse_decimal(&dec, UIntType::U8);
        match &res {
            Ok(v) => assert!(as_u128(v) == Some(x as u128), "printed u8 parses back to a different value"),
            Err(_) => assert!(false, "printed u8 does not parse back"),
        }
        kani::cover!(res.is_ok());
        forget(res);
        forget(dec);
        forget(s);
    }

    // ---------------------------------------------------------------------------------------------
    // C07: layout step.  `as_node` is the only place where the shape of the balanced tree / the
    // partition is decided; fold / unfold recurse through it (miniscript's generic iterators).

    static UNITS: [(); 300] = [(); 300];
    static INDEX: [u8; 96] = {
        let mut a = [0u8; 96];
        let mut i = 0;
        while i < 96 {
            a[i] = i as u8;
            i += 1;
        }
        a
    };

    /// largest power of two strictly below n (n >= 2), closed form
    fn pow2_below(n: usize) -> usize {
        1usize << (usize::BITS - 1 - (n - 1).leading_zeros())
    }

    #[kani::proof]
    #[kani::unwind(302)]
    fn c07_btree_slice_shape_n_le_300() {
        let n: usize = kani::any();
        kani::assume(n <= 300);
        let tree = BTreeSlice::from_slice(&UNITS[..n]);
        let l = tree.nth_child(0);
        let r = tree.nth_child(1);
        if n <= 1 {
            assert!(l.is_none() && r.is_none(), "a tree of at most one element must be a leaf");
            kani::cover!(true, "leaf reached");
        } else {
            let right = pow2_below(n);
            assert!(l == Some(BTreeSlice::from_slice(&UNITS[..n - right])), "left part has the wrong size");
            assert!(r == Some(BTreeSlice::from_slice(&UNITS[n - right..n])), "right part must hold the largest power of two strictly below n");
            kani::cover!(true, "inner node reached");
        }
    }

    #[kani::proof]
    #[kani::unwind(100)]
    fn c07_btree_slice_order_n_le_96() {
        let n: usize = kani::any();
        kani::assume(n >= 2 && n <= 96);
        let tree = BTreeSlice::from_slice(&INDEX[..n]);
        let right = pow2_below(n);
        // elements keep their order: the left child is the prefix, the right child the suffix
        assert!(tree.nth_child(0) == Some(BTreeSlice::from_slice(&INDEX[..n - right])));
        assert!(tree.nth_child(1) == Some(BTreeSlice::from_slice(&INDEX[n - right..n])));
        kani::cover!(n == 96);
    }

    fn partition_step(k: u32, n: usize) {
        // bound = 2^k, slice of n < bound elements
        let bound = NonZeroPow2Usize::new(1usize << k).unwrap();
        let p = Partition::from_slice(&INDEX[..n], bound);
        let l = p.nth_child(0);
        let r = p.nth_child(1);
        if k == 1 {
            assert!(l.is_none() && r.is_none());
            match p {
                Partition::Leaf { slice, size } => assert!(size == 1 && slice.len() == n),
                _ => assert!(false, "bound 2 must be a single block of size 1"),
            }
            kani::cover!(true, "smallest partition reached");
            return;
        }
        let half = 1usize << (k - 1);
        let smaller = NonZeroPow2Usize::new(half).unwrap();
        match (l, r) {
            (Some(Partition::Leaf { slice, size }), Some(rest)) => {
                assert!(size == half, "block size must be bound / 2");
                if n < half {
                    assert!(slice.is_empty(), "a list shorter than the block leaves the block empty");
                    assert!(rest == Partition::from_slice(&INDEX[..n], smaller));
                    kani::cover!(true, "empty block reached");
                } else {
                    assert!(slice == &INDEX[..half], "the block holds exactly the first bound / 2 elements, in order");
                    assert!(rest == Partition::from_slice(&INDEX[half..n], smaller));
                    kani::cover!(true, "filled block reached");
                }
            }
            _ => assert!(false, "a partition with bound > 2 splits into a block and a smaller partition"),
        }
    }

    #[kani::proof]
    #[kani::unwind(70)]
    fn c07_partition_step_bound_le_64() {
        let k: u32 = kani::any();
        kani::assume(k >= 1 && k <= 6);
        let n: usize = kani::any();
        kani::assume(n < (1usize << k));
        partition_step(k, n);
    }

    #[kani::proof]
    #[kani::unwind(4)]
    fn c07_uint_type_widths() {
        let ty = any_uint_type();
        let w = ty.bit_width();
        assert!(w.get() == bits_of(ty));
        assert!(UIntType::from_bit_width(w) == Some(ty));
        assert!(ty.byte_width() == bits_of(ty) / 8);
        let n: u32 = kani::any();
        kani::assume(n <= 12);
        match UIntType::two_n(n) {
            Some(t) => assert!(bits_of(t) == (1usize << n) && n <= 8),
            None => assert!(n > 8),
        }
        kani::cover!(n == 8);
    }

    // ---------------------------------------------------------------------------------------------
    // C06 extras: constructors that take untrusted numbers are total

    #[kani::proof]
    fn c06_pow2_constructors_total() {
        let n: usize = kani::any();
        let a = Pow2Usize::new(n);
        let b = NonZeroPow2Usize::new(n);
        assert!(a.is_some() == n.is_power_of_two());
        assert!(b.is_some() == (n.is_power_of_two() && n > 1));
        if let Some(p) = a {
            assert!(p.get() == n);
            assert!(1usize.checked_shl(p.log2()) == Some(n));
        }
        if let Some(p) = b {
            assert!(p.get() == n);
            match p.checked_div2() {
                Some(q) => assert!(q.get() * 2 == n && n > 2),
                None => assert!(n == 2),
            }
        }
        kani::cover!(a.is_some());
        kani::cover!(b.is_none());
    }

    // ---------------------------------------------------------------------------------------------
    // C14 / C06: span -> text.  For every valid UTF-8 file of 4 bytes and every pair of char-boundary
    // offsets a <= b < len, the span pest would attach (line_col of both ends) slices back to file[a..b].

    fn span_case<const LEN: usize>() {
        let buf: [u8; LEN] = kani::any();
        let file = match core::str::from_utf8(&buf) {
            Ok(s) => s,
            Err(_) => return,
        };
        let a: usize = kani::any();
        let b: usize = kani::any();
        kani::assume(a <= b && b < LEN);
        kani::assume(file.is_char_boundary(a) && file.is_char_boundary(b));
        let (l1, c1) = pest::Position::new(file, a).unwrap().line_col();
        let (l2, c2) = pest::Position::new(file, b).unwrap().line_col();
        let span = Span::new(Position::new(l1, c1), Position::new(l2, c2));
        let got = span.to_slice(file);
        assert!(got == Some(&file[a..b]), "span does not slice back to the text it was taken from");
        kani::cover!(a < b && l1 < l2, "multi-line span reached");
        kani::cover!(buf[0] >= 0x80, "non-ASCII file reached");
    }

    #[kani::proof]
    #[kani::unwind(6)]
    fn c14_span_roundtrip_len3() {
        span_case::<3>();
    }

    #[kani::proof]
    #[kani::unwind(7)]
    fn c14_span_roundtrip_len4() {
        span_case::<4>();
    }

    /// The whole-text span (`Span::from(&str)`, built on the error paths of type / value / module parsing) exists
    /// for EVERY text of up to 5 bytes: no panic in Position::new (line and column are non-zero), start <= end.
    /// `str::lines` is replaced by the byte-loop model in stubs.rs (the real iterator runs CBMC out of memory).
    macro_rules! span_from_str_harness {
        ($name:ident, $n:expr, $unwind:expr) => {
            #[kani::proof]
            #[kani::unwind($unwind)]
            #[kani::stub(<core::str::Lines as core::iter::Iterator>::next, crate::stubs::lines_next)]
            #[kani::stub(<core::str::Lines as core::iter::DoubleEndedIterator>::next_back, crate::stubs::lines_next_back)]
            fn $name() {
                let buf: [u8; $n] = kani::any();
                let len: usize = kani::any();
                kani::assume(len <= $n);
                let file = match core::str::from_utf8(&buf[..len]) {
                    Ok(s) => s,
                    Err(_) => return,
                };
                let span = Span::from(file);
                assert!(span.start.line <= span.end.line);
                assert!(span.start.line < span.end.line || span.start.col <= span.end.col);
                kani::cover!(span.end.line.get() > 1);
                kani::cover!(span.end.col.get() > 1);
            }
        };
    }
    span_from_str_harness!(c06_span_from_str_len3, 3, 6);
    span_from_str_harness!(c06_span_from_str_len5, 5, 8);

    // Tried and dropped: `impl Display for RichError` with `Formatter::write_fmt` stubbed to a no-op and the Lines model
    // (3-byte files, pest-producible spans): CBMC out of memory after 16 min - skip/peekable/take/enumerate over Lines plus
    // core::fmt::write and Arc<str> construction.  Error rendering stays outside the claim (C20 not applicable).

    /// to_slice never panics on the spans pest can hand out for a file: line/col of offsets a <= b <= len
    /// (b = len is the end of the input; the slice is then not found, which the callers tolerate)
    #[kani::proof]
    #[kani::unwind(6)]
    fn c06_span_to_slice_total() {
        let buf: [u8; 3] = kani::any();
        let file = match core::str::from_utf8(&buf) {
            Ok(s) => s,
            Err(_) => return,
        };
        let a: usize = kani::any();
        let b: usize = kani::any();
        kani::assume(a <= b && b <= 3);
        kani::assume(file.is_char_boundary(a) && file.is_char_boundary(b));
        let (l1, c1) = pest::Position::new(file, a).unwrap().line_col();
        let (l2, c2) = pest::Position::new(file, b).unwrap().line_col();
        let span = Span::new(Position::new(l1, c1), Position::new(l2, c2));
        let got = span.to_slice(file);
        if b < 3 {
            assert!(got.is_some());
        }
        kani::cover!(got.is_some());
        kani::cover!(got.is_none());
    }
}
