
    #![feature(error_generic_member_access)]

    use std::error::{Error, Request};
    use std::fmt::{self, Debug, Display};

    struct MyError(Thing);
    struct Thing;

    impl Debug for MyError {
        fn fmt(&self, _formatter: &mut fmt::Formatter) -> fmt::Result {
            unimplemented!()
        }
    }

    impl Display for MyError {
        fn fmt(&self, _formatter: &mut fmt::Formatter) -> fmt::Result {
            unimplemented!()
        }
    }

    impl Error for MyError {
        fn provide<'a>(&'a self, request: &mut Request<'a>) {
            request.provide_ref(&self.0);
        }
    }
