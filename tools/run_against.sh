#!/bin/bash
# tools/run_against.sh <seeded dir> <property> [extra ./check args]
# Applies a seeded change to /repo, runs one check, and ALWAYS undoes the change and restores the committed evidence file.
set -u
D=$(readlink -f "$1"); P=$2; shift 2
cd /verif
if ! git -C /repo diff --quiet; then echo "/repo is not clean"; exit 2; fi
git -C /repo apply "$D/patch.diff" || exit 2
trap 'git -C /repo checkout -- . ; git -C /verif checkout -- evidence/ 2>/dev/null' EXIT
LOG=/verif/work/against-$(basename "$D")-$P.log
mkdir -p /verif/work
/usr/bin/time -f "wall %es" ./check "$P" "$@" > "$LOG" 2>&1
rc=$?
echo "exit=$rc  violations=$(grep -c '^VIOLATION' "$LOG")  log=$LOG"
grep -m5 "^VIOLATION" "$LOG"
tail -3 "$LOG"
exit 0
