#!/usr/bin/env python3
"""Regenerates /verif/MANIFEST.json from the table below (keeps the manifest consistent and valid)."""
import json, os, subprocess, sys

VERIF = os.path.dirname(os.path.dirname(os.path.abspath(__file__)))

TRUST_E1 = ("Trusted: z3 4.8.12 (cvc5 as second opinion in thorough), simplicity-lang's type finalisation (source of the DAG's types), "
            "the book-layout function and source evaluator of simsym/src.py (the specification), the rewriting front end of simsym/terms.py "
            "(sound local rules, self-tested against a reference evaluator on random terms every run, guarded by canaries = deliberately wrong "
            "specifications that must be refuted), and the symbolic Bit Machine of simsym/machine.py, which is cross-validated against the real "
            "pipeline (satisfy -> encode -> decode -> BitMachine) on solver-chosen succeeding and failing witness assignments in every run.")

CHECKS = {
    "C01": dict(
        engine="simsym", category="translation_validation", ref="DESIGN.md 2, 5 (C01)",
        technique="SMT-based translation validation: symbolic execution of the Simplicity DAG emitted by the real compiler vs. symbolic source evaluator; z3 QF_UFBV over all witness bits",
        text="For every program of family F01 (coverage matrix: 31 expression forms x ~50 result types x 7 syntactic contexts, plus seeded random compositions; both debug settings) "
             "the DAG emitted by the real compiler is executed symbolically and the solver proves, for ALL witness values, that it fails exactly when a strict call-by-value evaluation "
             "of the source under the book's rules panics; every computed value is compared with a universally quantified witness, so value equality is decided too. "
             "Exhaustive in the input dimension (all bits symbolic), bounded in the program dimension (the family).",
        note=TRUST_E1),
    "C08": dict(
        engine="simsym", category="translation_validation", ref="DESIGN.md 2, 5 (C08)",
        technique="SMT-based translation validation (symbolic execution of emitted Simplicity, z3 QF_UFBV); fold functions as uninterpreted functions",
        text="One fold per program (plus 28 programs with several folds: one function at two bounds, the same bound twice, the folded function also called directly, a fold inside a function and in main, two functions); list bounds 2..256 (512 thorough), EVERY length, literal / witness / computed lists, element types u8,(u8,u8),Option<u8>,[u8;3]; "
             "fold functions both arbitrary (all jets uninterpreted: the verdict holds for every f) and concrete order-sensitive ones (replayable). The solver proves for all element values "
             "and accumulators that the emitted DAG equals the left-to-right source-level fold including failure; for N<=32 (64 thorough; the slowest fold functions only up to N=8 in quick) one query covers all lengths at once (symbolic block-presence bits, fold function arbitrary).",
        note=TRUST_E1),
    "C09": dict(
        engine="simsym", category="translation_validation", ref="DESIGN.md 2, 5 (C09)",
        technique="SMT-based translation validation (symbolic execution of emitted Simplicity, z3 QF_UFBV); symbolic exit iteration, uninterpreted accumulator updates",
        text="One for_while per program, counter widths 1,2,4,8 with the exit iteration decided by a witness (so one query covers every exit iteration and 'never'), bodies that panic after the "
             "exit point, ignore the counter, use tuple accumulators / unit contexts / a result type different from the accumulator; 16-bit counters: EVERY exit iteration incl. never by a compositional proof (loop cut after 8 counter bits: the program with the level-8 sub-expression replaced by an uninterpreted function equals the source loop over 256 prefixes, and that sub-expression equals the source loop over the 256 suffixes for every accumulator / context / prefix; jets uninterpreted), plus literal exit points with interpreted jets (quick: 0, 1, 2, 257; thorough: 8 literals <= 4095). "
             "The solver proves equality with the source-level loop 'first Left wins, later iterations are not evaluated, Right(acc) after 2^n iterations' for all accumulator/context values.",
        note=TRUST_E1),
    "C10": dict(
        engine="simsym", category="translation_validation", ref="DESIGN.md 2, 5 (C10)",
        technique="SMT-based translation validation (z3 QF_UFBV): every bound value is a distinct symbolic witness, each use is compared with a universally quantified witness",
        text="Binding structures over two names: all pattern shapes with <= 3 leaves over {a,b,_}, nested blocks, binding match arms, calls of functions of arity 0..3 whose parameters are named a/b and whose bodies re-bind them "
             "(plain, tuple, match-arm, Option-arm); statement sequences of length 1-2 exhaustively (seeded subset of pattern pairs in quick), seeded random sequences of length 3-4 with nesting depth <= 3, and a second seeded slice in which "
             "every binding picks its own leaf type (u8/u16/u32) so that the typing-side and the code-generation-side scope stacks can disagree. After every statement every bound name is observed, so 'which binding does this use denote' "
             "is decided by the solver for all values. A family member the front end rejects is a violation; seven ill-scoped programs must be rejected.",
        note=TRUST_E1),
    "C13": dict(
        engine="simsym", category="translation_validation", ref="DESIGN.md 2, 5 (C13)",
        technique="SMT (z3 QF_UFBV): the jet under test is an uninterpreted function on both sides; equivalence of emitted DAG and source-level call for all argument values and all jet meanings",
        text="For EVERY jet the library lists in Elements::ALL (469 non-reserved) a one-call program is generated from the library's own signature table in three call shapes; with the jet uninterpreted "
             "the solver proves that the bits entering the jet are the arguments in written order in the documented product layout and that the result is delivered unchanged. The ~230 jets with a bit-vector "
             "model are additionally run interpreted and compared with the real C jets on 27 (thorough: 203) solver-chosen / random / boundary argument tuples each. Reserved/unknown jets and wrong arities must be rejected. "
             "Not claimed: that each signature equals external documentation, and the jets' arithmetic (FFI).",
        note=TRUST_E1),
    "C14": dict(
        engine="simsym", category="translation_validation", ref="DESIGN.md 2, 5 (C14)",
        technique="SMT (z3 QF_UFBV) equivalence of debug and plain build of the emitted DAG for all witnesses; structural comparison of marker CMRs with debug_symbols() and the program's tracked calls; SMT proof that each dbg!/unwrap_left/unwrap_right marker receives the book-layout bits of the source-level argument on every successful run; real TrackedCall::map_value on solver-completed witnesses",
        text="Neutrality: for a slice of families F01/F08/F09/F10, debug-specific programs (dbg! in functions called twice, in fold and for_while bodies, all tracked kinds, two layouts) and ALL shipped examples "
             "(jets uninterpreted) the solver proves fails(debug build) == fails(plain build) for all witnesses. Bookkeeping on the emitted artefact: every assertl of the debug build is a fail node or resolves through "
             "debug_symbols(); the marker tag is the constant false; the (kind, text) set of the markers equals the tracked calls of the program text; distinct sites have distinct CMRs. "
             "Marker values: 130 programs (dbg! at 56 types in main / function called twice / match arms, unwrap_left/right at 10 Either types, computed arguments): the solver proves for all witnesses that the value entering "
             "each reached marker is the source-level argument value in the documented layout, and the REAL map_value (Value::reconstruct) applied to those bits on 2 solver-completed successful witnesses per program returns exactly the value the book layout reads. "
             "Value::reconstruct for all values of a type is not claimed (not encodable).",
        note=TRUST_E1),

    "C06": dict(
        engine="kani", category="model_checking", ref="DESIGN.md 3, 5 (C06)",
        technique="bounded model checking of the real Rust kernels with Kani/CBMC (SAT): panic-freedom and functional assertions over symbolic digit strings, types, numbers and spans",
        text="RESTRICTED SCOPE: panic-freedom (Kani checks unwrap/expect/index/overflow/unreachable by default) of the literal, number and span kernels that every text entry point funnels into - "
             "parse_decimal / parse_binary / parse_hexadecimal at EVERY integer type, U256::from_str, Pow2Usize / NonZeroPow2Usize constructors, Span::to_slice on the spans pest can produce, the whole-text span Span::from(&str) of the type/value/module error paths for ALL texts of <= 5 bytes - for all digit strings "
             "/ numbers / 3-byte files within the stated length bounds. The pest-generated parser, parse.rs tree construction, ast.rs, JSON/module parsing, error rendering and stack depth are NOT encodable and are outside the claim.",
        note="Trusted: Kani 0.68 / CBMC 6.11 and Kani's models of std; ASCII stubs for str::chars (sound because the grammar only lets ASCII digits through); a byte-loop model of str::Lines::next/next_back for the Span::from(&str) harnesses (std's own iterator runs CBMC out of memory); unwinding assertions on; every harness has a reachability witness (kani::cover!)."),
    "C07": dict(
        engine="simsym", category="translation_validation", ref="DESIGN.md 3, 5 (C07)",
        technique="Kani/CBMC bounded model checking of the layout step (as_node) + SMT (z3 QF_UFBV) proof that every admissible cast preserves all bits + enumeration of cast admissibility and type structures against the book's casting table",
        text="(1) Kani: the only place where the balanced-tree / partition shape is decided (BTreeSlice::as_node, Partition::as_node) equals the documented rule for EVERY size n<=300 / every list bound<=64 and length (one inductive step covers all reachable trees). "
             "(2) the Simplicity structure the library assigns to 85 types (arrays to 100, tuples to 13, list bounds to 512) equals the book's casting table; 255 sampled values have the documented bits. "
             "(3) for ALL 3600 ordered pairs of a 60-type family a cast is accepted exactly when the documented structures are equal, and for each accepted cast z3 proves all bits are preserved. The reconstruct round trip is only sampled (Kani ICE).",
        note=TRUST_E1 + " Kani part: Kani 0.68 / CBMC 6.11, unwinding assertions on, reachability witnesses."),
    "C11": dict(
        engine="simsym", category="model_checking", ref="DESIGN.md 3, 5 (C11)",
        technique="(a) Kani/CBMC bounded model checking of the literal parsers over ALL digit strings of the stated lengths; (b) SMT-based translation validation of `let x: T = <literal>` programs",
        text="(a) Kani: parse_decimal accepts a digit string iff its value fits and returns exactly that value - all strings of the three lengths around each width's maximum (u1..u64; u128 thorough); parse_binary: all bit strings of length 1..32 (64 thorough) against every type; "
             "parse_hexadecimal: all strings of 0..4 digits (8 thorough; 16 digits run CBMC out of memory) against every type, big-endian byte conversion for every byte length; U256::from_str up to 5 digits; digit-less literals rejected everywhere; every printed u8 parses back. "
             "(b) E1: ~2 900 literal programs (widths 1..256 x boundary values - of the width itself and of every narrower width - x the largest and a random number of EVERY decimal digit count x dec/bin/hex x underscore placements, leading zeros, upper case, every u8 value and every leading hex byte, byte arrays up to 64 bytes): z3 proves the compiled program succeeds iff the quantified witness equals the literal's value; ~180 ill-formed literals must be rejected. This part covers the grammar rules and parse.rs's underscore stripping.",
        note=TRUST_E1 + " Kani part: Kani's std models, ASCII stubs for str::chars in the binary and u256 harnesses."),
    "C12": dict(
        engine="simsym", category="translation_validation", ref="DESIGN.md 2, 5 (C12)",
        technique="SMT-based translation validation: instantiated template and literal-substituted text both proved equivalent to one source-level specification for all witnesses (z3 QF_UFBV)",
        text="For 23 template shapes (parameters of 18 types, in main and function bodies, one name twice, four parameters, loop context + body, none) and seeded argument values: the program `instantiate(args)` compiles to and the text with every "
             "`param::NAME` written literally are BOTH proved equal to the source semantics for all witnesses, hence to each other; parameters() is compared with the occurrences in the text; missing and mistyped (same width, different type) arguments must be refused, extra ones ignored. "
             "Arguments::is_consistent over ALL maps is not encodable; only the enumerated maps are exercised.",
        note=TRUST_E1),
    "C17": dict(
        engine="pegsmt", category="model_checking", ref="DESIGN.md 4, 5 (C17)",
        technique="PEG matching of the real grammar file encoded as SMT constraints over a symbolic identifier (z3), one query per naming role, models replayed through the real parser; plus SMT-based translation validation of renamed / re-laid-out programs",
        text="Lexical clause: /repo/src/minimal.pest is read at check time and its PEG semantics (ordered choice, greedy repetition, look-aheads, atomic rules, implicit whitespace) encoded over a symbolic identifier of length <= 10 (16 thorough); for 14 naming roles "
             "(variable use/definition, call, function/alias/parameter definition, type position, match arm, witness/param name, statement start) z3 shows that NO identifier other than the 62 exactly-reserved words is rejected. "
             "Renaming clause: 220 (1500) programs of F01/F10 with all user names replaced by 130 boundary identifiers (reserved word + letter/digit/underscore, case variants), aliases introduced, right-hand sides parenthesised, comments/CR/LF/tabs inserted are accepted and proved equivalent to the source semantics.",
        note=TRUST_E1 + " E3: the PEG encoding is validated by replaying every solver model through pest; the reserved-word list delimits the claim."),
}

NOT_APPLICABLE = {
    "C02": "CMR/encoding identities are SHA-256 Merkle roots and the bit codec of simplicity-lang: hash identities and pointer-rich library code with no symbolic input a solver could range over (DESIGN 6); the real pipeline is only exercised concretely by the cross-validation runs of the claimed checks",
    "C03": "needs symbolic execution of ast.rs + compile.rs + Simplicity unification over a symbolic *program*: CBMC/Kani cannot get through pest, Arc trees, HashMap and the Mutex-guarded union-find (measured, DESIGN 1)",
    "C04": "same obstacle as C03; an independent type checker over generated near misses would be differential testing, a different technique family",
    "C05": "WitnessValues::is_consistent is HashMap iteration + recursive Arc equality (Kani: 15 min timeout with one name); delivery by name happens inside simplicity-lang's Node::convert; in the symbolic engine a witness name IS a solver variable, which presupposes the property",
    "C15": "printers are pre-order state machines over Arc trees writing through core::fmt, parsers are pest-generated: neither side is encodable; the integer leaves are covered by C11",
    "C16": "pest parser and fmt-based printers are not encodable (DESIGN 1, 6)",
    "C18": "decided inside simplicity-lang (finalize_pruned, Bit Machine with tracker, C jets behind FFI); the Simfony side is a two-arm match",
    "C19": "a statement about RandomState seeds, process boundaries and a CLI: there is no symbolic input",
    "C20": "error rendering goes through core::fmt width/padding machinery over str::lines(); a Kani harness with a concrete 4-line file and a symbolic span reached 10.9 GB after 8 min (memchr inside lines(), integer printer) - not encodable (DESIGN 6)",
}

PENDING = {
    "C06": "check under construction in this session (Kani harnesses over the literal/span kernels)",
    "C07": "check under construction in this session (Kani layout-step harnesses + cast family)",
    "C11": "check under construction in this session (Kani harnesses over literal parsers)",
    "C12": "check under construction in this session (instantiation vs literal substitution, E1)",
    "C17": "check under construction in this session (PEG-to-SMT encoding of minimal.pest + renaming equivalence)",
}


def main():
    src_commits = subprocess.run(["git", "-C", "/repo", "log", "--format=%H %s", "5d4a9a3..HEAD"], capture_output=True, text=True).stdout.strip().splitlines()
    checks = []
    for pid in sorted(CHECKS):
        c = CHECKS[pid]
        checks.append({
            "property_id": pid,
            "quick_cmd": "./check %s --tier quick" % pid,
            "thorough_cmd": "./check %s --tier thorough" % pid,
            "evidence_file": "evidence/%s.json" % pid,
            "replay_cmd_template": "./check %s --replay {path}" % pid,
            "engine": c["engine"],
            "level_claimed": {"category": c["category"], "text": c["text"], "design_ref": c["ref"]},
            "level_note": c["note"],
            "technique": c["technique"],
        })
    na = [{"property_id": k, "reason": v} for k, v in sorted(NOT_APPLICABLE.items())]
    na += [{"property_id": k, "reason": v} for k, v in sorted(PENDING.items()) if k not in CHECKS]
    engines = [
        {"name": "simsym", "path": "simsym/", "serves_properties": sorted(k for k, v in CHECKS.items() if v["engine"] == "simsym"),
         "kind_free_text": "E1: symbolic execution of the Simplicity DAG emitted by the real compiler (regenerated on every run through driver/, a Rust crate with a path dependency on /repo), own bit-vector term layer with rewriting, SMT-LIB2 to z3 (cvc5 cross-check), counterexample replay on the real pipeline"},
        {"name": "kani", "path": "kani/", "serves_properties": sorted(k for k, v in CHECKS.items() if v["engine"] == "kani"),
         "kind_free_text": "E2: Kani 0.68 / CBMC proof harnesses over the literal, layout and span kernels of /repo (path dependency)"},
        {"name": "pegsmt", "path": "pegsmt/", "serves_properties": sorted(k for k, v in CHECKS.items() if v["engine"] == "pegsmt"),
         "kind_free_text": "E3: PEG matching of /repo/src/minimal.pest encoded as SMT constraints over a bounded symbolic string (z3), models replayed through the real parser"},
    ]
    engines = [e for e in engines if e["serves_properties"]]
    m = {
        "version": 1,
        "setup_cmd": "cd /verif && ./setup.sh",
        "hooks": {
            "guard": "blockstreamresearch_simfony_verif",
            "enable": "no source hooks are needed: every engine links /repo as a path dependency / reads its sources and uses public API only; the guard name is reserved",
            "baseline_off_cmd": "cd /repo && cargo test --workspace --no-fail-fast --offline",
            "source_commits": [l.split()[0] for l in src_commits],
            "add_only": True,
        },
        "engines": engines,
        "checks": checks,
        "not_applicable": na,
        "notes": "source_commits are `fix:` commits (genuine defects repaired, see known_findings.txt and DESIGN.md 7); there are no hook commits. "
                 "Exit codes of every check: 0 held, 1 VIOLATION (replayed on the real code), 2 inconclusive / machinery broken.",
    }
    path = os.path.join(VERIF, "MANIFEST.json")
    with open(path, "w") as f:
        json.dump(m, f, indent=1)
    try:
        import jsonschema
        jsonschema.validate(m, json.load(open("/root/.vp/MANIFEST.schema.json")))
        print("MANIFEST.json written and valid: %d checks, %d not applicable" % (len(checks), len(na)))
    except ImportError:
        print("MANIFEST.json written (jsonschema not available to validate)")


if __name__ == "__main__":
    main()
