#!/bin/bash
# tools/confirm_seed.sh <dir with patch.diff and demo.rs>
# Confirms a seeded change in a fresh scratch worktree of /repo (outside /repo and /verif, removed afterwards):
#   the existing suite passes with the change (with and without --features serde),
#   the demonstration fails with the change and passes without it.
# Prints one summary per step; exit 0 iff all four hold.
set -u
D=$(readlink -f "$1")
W=$(mktemp -d /tmp/confirm.XXXXXX)
export CARGO_NET_OFFLINE=true
git -C /repo worktree add --detach "$W/wt" HEAD -q || exit 2
cleanup() { git -C /repo worktree remove --force "$W/wt" 2>/dev/null; rm -rf "$W"; }
trap cleanup EXIT
cd "$W/wt"
[ -d /repo/target ] && cp -r /repo/target target
ok=0
git apply "$D/patch.diff" || { echo "PATCH DOES NOT APPLY"; exit 2; }
s1=$(cargo test --offline 2>&1 | grep -E "^test result|^error(\[|:)" | tr '\n' ' ')
echo "suite(with change): $s1"
echo "$s1" | grep -q "FAILED\|error" && ok=1
echo "$s1" | grep -q "test result: ok" || ok=1
s2=$(cargo test --offline --features serde 2>&1 | grep -E "^test result|^error(\[|:)" | tr '\n' ' ')
echo "serde(with change): $s2"
echo "$s2" | grep -q "FAILED\|error" && ok=1
mkdir -p tests
cp "$D/demo.rs" tests/seed_demo.rs
d1=$(cargo test --offline --features serde --test seed_demo 2>&1 | grep -E "^test result|^error" | tr '\n' ' ')
echo "demo(with change): $d1"
echo "$d1" | grep -q "FAILED" || ok=1
git apply -R "$D/patch.diff"
d2=$(cargo test --offline --features serde --test seed_demo 2>&1 | grep -E "^test result|^error" | tr '\n' ' ')
echo "demo(original): $d2"
echo "$d2" | grep -q "test result: ok" || ok=1
echo "$d2" | grep -q "FAILED\|error" && ok=1
echo "CONFIRMED=$([ $ok = 0 ] && echo yes || echo no)"
exit $ok
