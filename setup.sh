#!/bin/bash
# Build the framework offline from files on disk only.
set -e
cd "$(dirname "$0")"
export CARGO_NET_OFFLINE=true
[ -f driver/Cargo.lock ] || cp /repo/Cargo.lock driver/Cargo.lock
(cd driver && cargo build --release --quiet)
echo "setup ok"
